(* Proofs/RenderText.v — text-level rendering theorems (C11).
   rpx ct t is the printed expression of render_annotation: ra ct t = ppx (rpx ct t) for every TypedDict-free
   type whose class texts are lexically sane (dotted identifiers free of the two globally substituted texts).
   With Proofs/RenderTextPx.v (tokenizer and parser invert ppx; text rewrites act word by word):
     parse_back      : parse_anno (ra ct t) = Some (rast ct t)              (all classes of t builtin: nothing to strip)
     strip_tokenwise : strip_mods mods (ra ct t) = ra (strip_ct mods ct) t  and it parses to rast (strip_ct mods ct) t
     tokenwise_holds / resolves_text_uncond : the premise of render_resolves_partial discharged *)
From MT Require Import Types Render TypesFacts RenderTok RenderTextStr RenderTextPx.
From Coq Require Import Lia.

Open Scope string_scope.
Open Scope nat_scope.
Open Scope list_scope.

(* ------------------------------------------------------------------------------------------ *)
(* lexical conditions                                                                          *)
(* ------------------------------------------------------------------------------------------ *)
Definition text_of (m q : string) : string := if String.eqb m "builtins" then q else m +++ "." +++ q.

(* one class-table entry: its printed text is a dotted word; NoneType is builtins.NoneType; every other
   class text contains neither "typing." nor "NoneType" *)
Definition entry_ok (c : cls) (m q : string) : bool :=
  dotted (text_of m q)
  && (if N.eqb c cNone then String.eqb m "builtins" && String.eqb q "NoneType" else clean (text_of m q)).

Definition cls_lex (ct : ctable) (c : cls) : bool :=
  match cfind ct c with Some (m, q) => entry_ok c m q | None => false end.

Definition ct_lexical_ok (ct : ctable) : bool :=
  forallb (fun e : cls * (string * string) => entry_ok (fst e) (fst (snd e)) (snd (snd e))) ct.

Definition cls_in (ct : ctable) (c : cls) : bool :=
  match cfind ct c with Some _ => true | None => false end.

Lemma ct_lexical_cls ct c : ct_lexical_ok ct = true -> cls_in ct c = true -> cls_lex ct c = true.
Proof.
  unfold ct_lexical_ok, cls_in, cls_lex. induction ct as [|[c' [m q]] r IH]; cbn [cfind forallb]; intros H Hin.
  - discriminate.
  - apply andb_prop in H as [H1 H2]. destruct (N.eqb c c') eqn:E.
    + apply N.eqb_eq in E. subst. exact H1.
    + apply IH; assumption.
Qed.

(* a forward-reference name: no quote, no dot, none of the substituted texts *)
Definition fwd_name_ok (n : string) : bool := noquote n && negb (hasdot n) && clean n.

Section Lex.
Variable cp : cls -> bool.

(* repr route (below Type / Iterator / DefaultDict) *)
Fixpoint lexok_r (t : ty) : bool :=
  match t with
  | TAny | TCallable => true
  | TCls c => cp c
  | TFwd _ | TTypedDict _ _ => false
  | TType x | TList x | TSet x | TIterator x | TTupleVar x => lexok_r x
  | TDict k v | TDefaultDict k v => lexok_r k && lexok_r v
  | TTuple ts => forallb lexok_r ts
  | TGenerator a b c => lexok_r a && lexok_r b && lexok_r c
  | TUnion ts => negb (Nat.eqb (List.length ts) 0) && forallb lexok_r ts
  end.

(* structural route: `ok t`, plus cp on every class and fwd_name_ok on every forward reference *)
Fixpoint lexok (t : ty) : bool :=
  match t with
  | TAny | TCallable => true
  | TCls c => cp c
  | TFwd n => fwd_name_ok n
  | TTypedDict _ _ => false
  | TType _ | TIterator _ | TDefaultDict _ _ => lexok_r t
  | TList x | TSet x | TTupleVar x => lexok x
  | TDict k v => lexok k && lexok v
  | TTuple ts => forallb lexok ts
  | TGenerator a b c => lexok a && lexok b && lexok c
  | TUnion ts => existsb not_none ts && forallb lexok ts
  end.
End Lex.

(* ------------------------------------------------------------------------------------------ *)
(* the printed expression of an annotation                                                     *)
(* ------------------------------------------------------------------------------------------ *)
Section Rpx.
Variable ct : ctable.

Definition cls_word (c : cls) : string := if N.eqb c cNone then "None" else cls_text ct c.

(* repr(), before the global substitutions *)
Fixpoint rpx_raw (t : ty) : px :=
  match t with
  | TAny => PName "typing.Any"
  | TCls c => PName (cls_text ct c)
  | TType x => PSub "typing.Type" [rpx_raw x]
  | TCallable => PName "typing.Callable"
  | TList x => PSub "typing.List" [rpx_raw x]
  | TSet x => PSub "typing.Set" [rpx_raw x]
  | TIterator x => PSub "typing.Iterator" [rpx_raw x]
  | TDict k v => PSub "typing.Dict" [rpx_raw k; rpx_raw v]
  | TDefaultDict k v => PSub "typing.DefaultDict" [rpx_raw k; rpx_raw v]
  | TTuple ts => match ts with
                 | [] => PSub "typing.Tuple" [PEmpty]
                 | _ => PSub "typing.Tuple" (map rpx_raw ts)
                 end
  | TTupleVar x => PSub "typing.Tuple" [rpx_raw x; PEll]
  | TGenerator a b c => PSub "typing.Generator" [rpx_raw a; rpx_raw b; rpx_raw c]
  | TUnion ts =>
      match ts with
      | [a; b] => if is_none_ty a then PSub "typing.Optional" [rpx_raw b]
                  else if is_none_ty b then PSub "typing.Optional" [rpx_raw a]
                  else PSub "typing.Union" (map rpx_raw ts)
      | _ => PSub "typing.Union" (map rpx_raw ts)
      end
  | TTypedDict _ _ => PName "?"
  | TFwd _ => PName "ForwardRef"
  end.

(* repr(), after them *)
Fixpoint rpx_r (t : ty) : px :=
  match t with
  | TAny => PName "Any"
  | TCls c => PName (cls_word c)
  | TType x => PSub "Type" [rpx_r x]
  | TCallable => PName "Callable"
  | TList x => PSub "List" [rpx_r x]
  | TSet x => PSub "Set" [rpx_r x]
  | TIterator x => PSub "Iterator" [rpx_r x]
  | TDict k v => PSub "Dict" [rpx_r k; rpx_r v]
  | TDefaultDict k v => PSub "DefaultDict" [rpx_r k; rpx_r v]
  | TTuple ts => match ts with
                 | [] => PSub "Tuple" [PEmpty]
                 | _ => PSub "Tuple" (map rpx_r ts)
                 end
  | TTupleVar x => PSub "Tuple" [rpx_r x; PEll]
  | TGenerator a b c => PSub "Generator" [rpx_r a; rpx_r b; rpx_r c]
  | TUnion ts =>
      match ts with
      | [a; b] => if is_none_ty a then PSub "Optional" [rpx_r b]
                  else if is_none_ty b then PSub "Optional" [rpx_r a]
                  else PSub "Union" (map rpx_r ts)
      | _ => PSub "Union" (map rpx_r ts)
      end
  | TTypedDict _ _ => PName "?"
  | TFwd _ => PName "ForwardRef"
  end.

(* render_annotation *)
Fixpoint rpx (t : ty) : px :=
  match t with
  | TAny => PName "Any"
  | TCls c => PName (cls_word c)
  | TFwd n => PStr n
  | TCallable => PName "Callable"
  | TType _ | TIterator _ | TDefaultDict _ _ => rpx_r t
  | TTypedDict _ _ => PName "?"
  | TList x => PSub "List" [rpx x]
  | TSet x => PSub "Set" [rpx x]
  | TDict k v => PSub "Dict" [rpx k; rpx v]
  | TTuple ts => match ts with
                 | [] => PSub "Tuple" [PEmpty]
                 | _ => PSub "Tuple" (map rpx ts)
                 end
  | TTupleVar x => PSub "Tuple" [rpx x; PName "Ellipsis"]
  | TGenerator a b c => PSub "Generator" [rpx a; rpx b; rpx c]
  | TUnion ts =>
      if existsb is_none_ty ts then
        let others := map snd (filter (fun p => negb (fst p)) (map (fun x => (is_none_ty x, rpx x)) ts)) in
        PSub "Optional" [match others with [x] => x | _ => PSub "Union" others end]
      else PSub "Union" (map rpx ts)
  end.
End Rpx.

(* ------------------------------------------------------------------------------------------ *)
(* list helpers                                                                                *)
(* ------------------------------------------------------------------------------------------ *)
Lemma Forall_mp {A} (f : A -> bool) (Q : A -> Prop) l :
  Forall (fun x => f x = true -> Q x) l -> forallb f l = true -> Forall Q l.
Proof.
  induction 1 as [|x l Hx _ IH]; intros H; [constructor|].
  cbn in H. apply andb_prop in H as [H1 H2]. constructor; auto.
Qed.

Lemma Forall_map_eq {A B} (g h : A -> B) l : Forall (fun x => g x = h x) l -> map g l = map h l.
Proof. induction 1; cbn; congruence. Qed.

Lemma Forall_filter {A} (Q : A -> Prop) f l : Forall Q l -> Forall Q (filter f l).
Proof. rewrite !Forall_forall. intros H x Hx. apply filter_In in Hx as [Hx _]. auto. Qed.

Lemma forallb_filter {A} (g f : A -> bool) l : forallb g l = true -> forallb g (filter f l) = true.
Proof. rewrite !forallb_forall. intros H x Hx. apply filter_In in Hx as [Hx _]. auto. Qed.

Lemma Forall_and {A} (P Q : A -> Prop) l : Forall (fun x => P x /\ Q x) l -> Forall P l /\ Forall Q l.
Proof. induction 1 as [|x l [H1 H2] _ [IH1 IH2]]; split; constructor; assumption. Qed.

Lemma filter_not_none_ne ts : existsb not_none ts = true -> filter not_none ts <> [].
Proof.
  intros Hex E. apply existsb_exists in Hex as (x & Hx & Hnn).
  assert (Hin : In x (filter not_none ts)) by (apply filter_In; split; assumption).
  rewrite E in Hin. exact Hin.
Qed.

Lemma forallb_map_true {A B} (f : B -> bool) (g : A -> B) l :
  Forall (fun x => f (g x) = true) l -> forallb f (map g l) = true.
Proof. induction 1 as [|x l Hx _ IH]; cbn; [reflexivity|]. rewrite Hx, IH. reflexivity. Qed.

(* ------------------------------------------------------------------------------------------ *)
(* (i) ra ct t = ppx (rpx ct t)                                                                *)
(* ------------------------------------------------------------------------------------------ *)
Definition fixp (e : px) : Prop := mapw (post true) e = e.

Lemma post_ppx e : post true (ppx e) = ppx (mapw (post true) e).
Proof. apply (ppx_distr (post true) (post_ddistr true)). reflexivity. Qed.

Lemma fixp_sub w args : post true w = w -> Forall fixp args -> fixp (PSub w args).
Proof.
  intros Hw Ha. unfold fixp. cbn [mapw]. rewrite Hw. f_equal.
  induction Ha as [|x l Hx _ IH]; cbn; [reflexivity|]. rewrite Hx, IH. reflexivity.
Qed.

(* post of a subscription whose arguments are already fixed *)
Lemma post_sub w args : Forall fixp args -> post true (ppx (PSub w args)) = ppx (PSub (post true w) args).
Proof.
  intros Ha. rewrite post_ppx. cbn [mapw]. do 2 f_equal.
  induction Ha as [|x l Hx _ IH]; cbn; [reflexivity|]. rewrite Hx, IH. reflexivity.
Qed.

Lemma ppx_sub1 w a : ppx (PSub w [a]) = w +++ "[" +++ ppx a +++ "]".
Proof. reflexivity. Qed.
Lemma ppx_sub2 w a b : ppx (PSub w [a; b]) = w +++ "[" +++ ppx a +++ ", " +++ ppx b +++ "]".
Proof. cbn [ppx map join]. rewrite !app_assoc_s. reflexivity. Qed.
Lemma ppx_sub3 w a b c :
  ppx (PSub w [a; b; c]) = w +++ "[" +++ ppx a +++ ", " +++ ppx b +++ ", " +++ ppx c +++ "]".
Proof. cbn [ppx map join]. rewrite !app_assoc_s. reflexivity. Qed.

Section RaPx.
Variable ct : ctable.
Variable cp : cls -> bool.
Hypothesis Hcp : forall c, cp c = true -> cls_lex ct c = true.

Lemma cls_facts c : cls_lex ct c = true ->
  post true (cls_text ct c) = cls_word ct c
  /\ post true (cls_word ct c) = cls_word ct c
  /\ post false (cls_word ct c) = cls_word ct c
  /\ dotted (cls_word ct c) = true.
Proof.
  unfold cls_lex, cls_word, cls_text, cmod, cqual. destruct (cfind ct c) as [[m q]|]; [|discriminate].
  unfold entry_ok. intros H. apply andb_prop in H as [Hd H]. fold (text_of m q).
  destruct (N.eqb c cNone).
  - apply andb_prop in H as [Hm Hq]. apply String.eqb_eq in Hm, Hq. subst. repeat split; reflexivity.
  - rewrite !(clean_post _ _ H). repeat split; try reflexivity. exact Hd.
Qed.

Lemma repr_px : forall t, lexok_r cp t = true -> repr_ty ct t = ppx (rpx_raw ct t).
Proof.
  induction t using ty_ind'; intros Hok; cbn [lexok_r] in Hok; try discriminate; cbn [repr_ty rpx_raw];
    repeat match goal with H : _ && _ = true |- _ => apply andb_prop in H as [? ?] end.
  - reflexivity.
  - reflexivity.
  - rewrite IHt by assumption. reflexivity.
  - reflexivity.
  - rewrite IHt by assumption. reflexivity.
  - rewrite IHt by assumption. reflexivity.
  - rewrite IHt by assumption. reflexivity.
  - rewrite IHt1, IHt2 by assumption. rewrite ppx_sub2. reflexivity.
  - rewrite IHt1, IHt2 by assumption. rewrite ppx_sub2. reflexivity.
  - destruct ts as [|a r]; [reflexivity|].
    pose proof (Forall_mp _ _ _ H Hok) as HF.
    rewrite (Forall_map_eq _ _ _ HF). cbn [ppx]. rewrite map_map. reflexivity.
  - rewrite IHt by assumption. rewrite ppx_sub2. reflexivity.
  - rewrite IHt1, IHt2, IHt3 by assumption. rewrite ppx_sub3. reflexivity.
  - pose proof (Forall_mp _ _ _ H H1) as HF.
    assert (G : "typing.Union[" +++ join ", " (map (repr_ty ct) ts) +++ "]"
                = ppx (PSub "typing.Union" (map (rpx_raw ct) ts))).
    { rewrite (Forall_map_eq _ _ _ HF). cbn [ppx]. rewrite map_map. reflexivity. }
    destruct ts as [|a [|b [|c r]]]; try exact G.
    inversion HF as [|? ? Ha HF']; subst. inversion HF' as [|? ? Hb _]; subst.
    destruct (is_none_ty a); [rewrite Hb; reflexivity|].
    destruct (is_none_ty b); [rewrite Ha; reflexivity|]. exact G.
Qed.

Lemma raw_post : forall t, lexok_r cp t = true ->
  mapw (post true) (rpx_raw ct t) = rpx_r ct t /\ fixp (rpx_r ct t).
Proof.
  induction t using ty_ind'; intros Hok; cbn [lexok_r] in Hok; try discriminate; cbn [rpx_raw rpx_r];
    repeat match goal with H : _ && _ = true |- _ => apply andb_prop in H as [? ?] end;
    repeat match goal with IH : lexok_r cp ?x = true -> _, H : lexok_r cp ?x = true |- _ =>
                             specialize (IH H); destruct IH as [? ?] end.
  - split; reflexivity.
  - destruct (cls_facts c (Hcp c Hok)) as (H1 & H2 & _). split; unfold fixp; cbn [mapw]; congruence.
  - split; [cbn [mapw map]; f_equal; (reflexivity || congruence) | apply fixp_sub; [reflexivity | repeat constructor; assumption]].
  - split; reflexivity.
  - split; [cbn [mapw map]; f_equal; (reflexivity || congruence) | apply fixp_sub; [reflexivity | repeat constructor; assumption]].
  - split; [cbn [mapw map]; f_equal; (reflexivity || congruence) | apply fixp_sub; [reflexivity | repeat constructor; assumption]].
  - split; [cbn [mapw map]; f_equal; (reflexivity || congruence) | apply fixp_sub; [reflexivity | repeat constructor; assumption]].
  - split; [cbn [mapw map]; f_equal; (reflexivity || congruence) | apply fixp_sub; [reflexivity | repeat constructor; assumption]].
  - split; [cbn [mapw map]; f_equal; (reflexivity || congruence) | apply fixp_sub; [reflexivity | repeat constructor; assumption]].
  - destruct ts as [|a r]; [split; reflexivity|].
    pose proof (Forall_mp _ _ _ H Hok) as HF. apply Forall_and in HF as [HF1 HF2].
    split.
    + cbn [mapw]. rewrite map_map. rewrite (Forall_map_eq _ _ _ HF1). reflexivity.
    + apply fixp_sub; [reflexivity|]. rewrite Forall_forall in *. intros e He.
      apply in_map_iff in He as (x & <- & Hx). auto.
  - split; [cbn [mapw map]; f_equal; (reflexivity || congruence) | apply fixp_sub; [reflexivity | repeat constructor; assumption]].
  - split; [cbn [mapw map]; f_equal; (reflexivity || congruence) | apply fixp_sub; [reflexivity | repeat constructor; assumption]].
  - pose proof (Forall_mp _ _ _ H H1) as HF. apply Forall_and in HF as [HF1 HF2].
    assert (G : mapw (post true) (PSub "typing.Union" (map (rpx_raw ct) ts)) = PSub "Union" (map (rpx_r ct) ts)
                /\ fixp (PSub "Union" (map (rpx_r ct) ts))).
    { split.
      - cbn [mapw]. rewrite map_map. rewrite (Forall_map_eq _ _ _ HF1). reflexivity.
      - apply fixp_sub; [reflexivity|]. rewrite Forall_forall in *. intros e He.
        apply in_map_iff in He as (x & <- & Hx). auto. }
    destruct ts as [|a [|b [|c r]]]; try exact G.
    inversion HF1 as [|? ? Ha1 HF1']; subst. inversion HF1' as [|? ? Hb1 _]; subst.
    inversion HF2 as [|? ? Ha2 HF2']; subst. inversion HF2' as [|? ? Hb2 _]; subst.
    destruct (is_none_ty a).
    { split; [cbn [mapw map]; f_equal; (reflexivity || congruence) | apply fixp_sub; [reflexivity | repeat constructor; assumption]]. }
    destruct (is_none_ty b).
    { split; [cbn [mapw map]; f_equal; (reflexivity || congruence) | apply fixp_sub; [reflexivity | repeat constructor; assumption]]. }
    exact G.
Qed.

Lemma ra_repr t : lexok_r cp t = true ->
  post true (repr_ty ct t) = ppx (rpx_r ct t) /\ fixp (rpx_r ct t).
Proof.
  intros H. destruct (raw_post t H) as [H1 H2]. split; [|exact H2].
  rewrite (repr_px t H), post_ppx, H1. reflexivity.
Qed.

Ltac sub_case w l :=
  split; [ transitivity (post true (ppx (PSub w l)));
           [ f_equal; rewrite ?ppx_sub2, ?ppx_sub3; reflexivity
           | rewrite post_sub by (repeat constructor; assumption); reflexivity ]
         | apply fixp_sub; [reflexivity | repeat constructor; assumption] ].

Ltac rw_ra := repeat match goal with H : ra ct ?x = ppx _ |- _ => rewrite H; clear H end.

Lemma ra_px : forall t, lexok cp t = true -> ra ct t = ppx (rpx ct t) /\ fixp (rpx ct t).
Proof.
  induction t using ty_ind'; intros Hok; try (apply ra_repr; exact Hok);
    cbn [lexok] in Hok; try discriminate; cbn [ra rpx];
    repeat match goal with H : _ && _ = true |- _ => apply andb_prop in H as [? ?] end;
    repeat match goal with IH : lexok cp ?x = true -> _, H : lexok cp ?x = true |- _ =>
                             specialize (IH H); destruct IH as [? ?] end.
  - split; reflexivity.
  - destruct (cls_facts c (Hcp c Hok)) as (_ & H2 & H3 & _). split.
    + fold (cls_word ct c). exact H3.
    + unfold fixp. cbn [mapw]. congruence.
  - split; reflexivity.
  - rw_ra. sub_case "typing.List" [rpx ct t].
  - rw_ra. sub_case "typing.Set" [rpx ct t].
  - rw_ra. sub_case "typing.Dict" [rpx ct t1; rpx ct t2].
  - destruct ts as [|a r]; [split; reflexivity|].
    pose proof (Forall_mp _ _ _ H Hok) as HF. apply Forall_and in HF as [HF1 HF2].
    rewrite (Forall_map_eq _ _ _ HF1).
    assert (HF3 : Forall fixp (map (rpx ct) (a :: r))).
    { rewrite Forall_forall in *. intros e He. apply in_map_iff in He as (x & <- & Hx). auto. }
    split.
    + transitivity (post true (ppx (PSub "typing.Tuple" (map (rpx ct) (a :: r))))).
      * f_equal. cbn [ppx]. rewrite map_map. reflexivity.
      * rewrite post_sub by exact HF3. reflexivity.
    + apply fixp_sub; [reflexivity | exact HF3].
  - rw_ra.
    split; [ transitivity (post true (ppx (PSub "typing.Tuple" [rpx ct t; PName "Ellipsis"])));
             [ f_equal; rewrite ppx_sub2; reflexivity
             | rewrite post_sub by (repeat constructor; (assumption || reflexivity)); reflexivity ]
           | apply fixp_sub; [reflexivity | repeat constructor; (assumption || reflexivity)] ].
  - rw_ra. sub_case "typing.Generator" [rpx ct t1; rpx ct t2; rpx ct t3].
  - (* Union *)
    pose proof (Forall_mp _ _ _ H H1) as HF. apply Forall_and in HF as [HF1 HF2].
    destruct (existsb is_none_ty ts).
    + rewrite !filter_flag.
      pose proof (filter_not_none_ne ts H0) as Hne.
      pose proof (Forall_filter _ not_none _ HF1) as HG1.
      pose proof (Forall_filter _ not_none _ HF2) as HG2.
      rewrite (Forall_map_eq _ _ _ HG1).
      destruct (filter not_none ts) as [|a [|b r]]; [congruence| |].
      * inversion HG2; subst. cbn [map]. sub_case "Optional" [rpx ct a].
      * assert (HF3 : Forall fixp (map (rpx ct) (a :: b :: r))).
        { rewrite Forall_forall in *. intros e He. apply in_map_iff in He as (x & <- & Hx). auto. }
        assert (HU : post true ("typing.Union[" +++ join ", " (map (fun x => ppx (rpx ct x)) (a :: b :: r)) +++ "]")
                     = ppx (PSub "Union" (map (rpx ct) (a :: b :: r)))).
        { transitivity (post true (ppx (PSub "typing.Union" (map (rpx ct) (a :: b :: r))))).
          - f_equal. cbn [ppx]. rewrite map_map. reflexivity.
          - rewrite post_sub by exact HF3. reflexivity. }
        assert (HUf : fixp (PSub "Union" (map (rpx ct) (a :: b :: r)))) by (apply fixp_sub; [reflexivity | exact HF3]).
        cbn [map] in *. rewrite HU.
        sub_case "Optional" [PSub "Union" (rpx ct a :: rpx ct b :: map (rpx ct) r)].
    + rewrite (Forall_map_eq _ _ _ HF1).
      assert (HF3 : Forall fixp (map (rpx ct) ts)).
      { rewrite Forall_forall in *. intros e He. apply in_map_iff in He as (x & <- & Hx). auto. }
      split.
      * transitivity (post true (ppx (PSub "typing.Union" (map (rpx ct) ts)))).
        -- f_equal. cbn [ppx]. rewrite map_map. reflexivity.
        -- rewrite post_sub by exact HF3. reflexivity.
      * apply fixp_sub; [reflexivity | exact HF3].
  - (* forward reference *)
    unfold fwd_name_ok in Hok. apply andb_prop in Hok as [Hok Hc]. split.
    + change ("'" +++ s +++ "'") with (ppx (PStr s)). rewrite post_ppx. cbn [mapw].
      rewrite (clean_post true s Hc). reflexivity.
    + unfold fixp. cbn [mapw]. rewrite (clean_post true s Hc). reflexivity.
Qed.

(* ---- (ii) the printed expression is well formed ---- *)
Lemma wf_sub w l : dotted w = true -> l <> [] -> Forall (fun e => wfpx e = true) l -> wfpx (PSub w l) = true.
Proof.
  intros Hw Hl HF. cbn [wfpx]. rewrite Hw. destruct l; [congruence|]. cbn [List.length Nat.eqb negb andb].
  rewrite forallb_forall. rewrite Forall_forall in HF. exact HF.
Qed.

Lemma Forall_map_wf (f : ty -> px) ts : Forall (fun x => wfpx (f x) = true) ts -> Forall (fun e => wfpx e = true) (map f ts).
Proof. rewrite !Forall_forall. intros H e He. apply in_map_iff in He as (x & <- & Hx). auto. Qed.

Lemma rpx_r_wf : forall t, lexok_r cp t = true -> wfpx (rpx_r ct t) = true.
Proof.
  induction t using ty_ind'; intros Hok; cbn [lexok_r] in Hok; try discriminate; cbn [rpx_r];
    repeat match goal with H : _ && _ = true |- _ => apply andb_prop in H as [? ?] end;
    repeat match goal with IH : lexok_r cp ?x = true -> _, H : lexok_r cp ?x = true |- _ => specialize (IH H) end;
    try (apply wf_sub; [reflexivity | discriminate | repeat constructor; assumption]); try reflexivity.
  - apply (cls_facts c (Hcp c Hok)).
  - destruct ts as [|a r]; [reflexivity|].
    apply wf_sub; [reflexivity | discriminate | apply Forall_map_wf; exact (Forall_mp _ _ _ H Hok)].
  - pose proof (Forall_mp _ _ _ H H1) as HF.
    assert (G : wfpx (PSub "Union" (map (rpx_r ct) ts)) = true).
    { apply wf_sub; [reflexivity | destruct ts; [discriminate H0 | discriminate] | apply Forall_map_wf; exact HF]. }
    destruct ts as [|a [|b [|c r]]]; try exact G.
    inversion HF as [|? ? Ha HF']; subst. inversion HF' as [|? ? Hb _]; subst.
    destruct (is_none_ty a); [apply wf_sub; [reflexivity | discriminate | repeat constructor; assumption]|].
    destruct (is_none_ty b); [apply wf_sub; [reflexivity | discriminate | repeat constructor; assumption]|].
    exact G.
Qed.

Lemma rpx_wf : forall t, lexok cp t = true -> wfpx (rpx ct t) = true.
Proof.
  induction t using ty_ind'; intros Hok; try (apply rpx_r_wf; exact Hok);
    cbn [lexok] in Hok; try discriminate; cbn [rpx];
    repeat match goal with H : _ && _ = true |- _ => apply andb_prop in H as [? ?] end;
    repeat match goal with IH : lexok cp ?x = true -> _, H : lexok cp ?x = true |- _ => specialize (IH H) end;
    try (apply wf_sub; [reflexivity | discriminate | repeat constructor; (assumption || reflexivity)]);
    try reflexivity.
  - apply (cls_facts c (Hcp c Hok)).
  - destruct ts as [|a r]; [reflexivity|].
    apply wf_sub; [reflexivity | discriminate | apply Forall_map_wf; exact (Forall_mp _ _ _ H Hok)].
  - pose proof (Forall_mp _ _ _ H H1) as HF.
    destruct (existsb is_none_ty ts).
    + rewrite filter_flag.
      pose proof (filter_not_none_ne ts H0) as Hne.
      pose proof (Forall_filter _ not_none _ HF) as HG.
      destruct (filter not_none ts) as [|a [|b r]]; [congruence| |].
      * inversion HG; subst. apply wf_sub; [reflexivity | discriminate | repeat constructor; assumption].
      * apply wf_sub; [reflexivity | discriminate |]. repeat constructor.
        apply wf_sub; [reflexivity | discriminate | apply Forall_map_wf; exact HG].
    + apply wf_sub; [reflexivity | | apply Forall_map_wf; exact HF].
      destruct ts; [discriminate H0 | discriminate].
  - unfold fwd_name_ok in Hok. apply andb_prop in Hok as [Hok _]. apply andb_prop in Hok as [Hok _]. exact Hok.
Qed.
End RaPx.

(* ------------------------------------------------------------------------------------------ *)
(* (iii) the parsed printed expression is the token-level rendering                            *)
(* ------------------------------------------------------------------------------------------ *)
Section ToAe.
Variable ct ct0 : ctable.       (* ct: the table the text was printed from; ct0: the table rast is taken in *)
Variable cp : cls -> bool.
Hypothesis Hcp : forall c, cp c = true -> c <> cNone -> cls_text ct c = cqual ct0 c.

Lemma to_ae_cls c : cp c = true -> to_ae (PName (cls_word ct c)) = cls_ast ct0 c.
Proof.
  intros H. unfold cls_word, cls_ast. destruct (N.eqb c cNone) eqn:E; [reflexivity|].
  apply N.eqb_neq in E. cbn [to_ae]. rewrite (Hcp c H E). reflexivity.
Qed.

Lemma rpx_r_ae : forall t, lexok_r cp t = true -> to_ae (rpx_r ct t) = rast_r ct0 t.
Proof.
  induction t using ty_ind'; intros Hok; cbn [lexok_r] in Hok; try discriminate; cbn [rpx_r rast_r];
    repeat match goal with H : _ && _ = true |- _ => apply andb_prop in H as [? ?] end;
    repeat match goal with IH : lexok_r cp ?x = true -> _, H : lexok_r cp ?x = true |- _ => specialize (IH H) end;
    try (cbn [to_ae map]; f_equal; try reflexivity; congruence); try reflexivity.
  - apply to_ae_cls; exact Hok.
  - destruct ts as [|a r]; [reflexivity|]. cbn [to_ae]. rewrite map_map.
    rewrite (Forall_map_eq _ _ _ (Forall_mp _ _ _ H Hok)). reflexivity.
  - pose proof (Forall_mp _ _ _ H H1) as HF.
    assert (G : to_ae (PSub "Union" (map (rpx_r ct) ts)) = ASub ["Union"] (map (rast_r ct0) ts)).
    { cbn [to_ae]. rewrite map_map. rewrite (Forall_map_eq _ _ _ HF). reflexivity. }
    destruct ts as [|a [|b [|c r]]]; try exact G.
    inversion HF as [|? ? Ha HF']; subst. inversion HF' as [|? ? Hb _]; subst.
    destruct (is_none_ty a); [cbn [to_ae map]; f_equal; try reflexivity; congruence|].
    destruct (is_none_ty b); [cbn [to_ae map]; f_equal; try reflexivity; congruence|]. exact G.
Qed.

Lemma rpx_ae : forall t, lexok cp t = true -> to_ae (rpx ct t) = rast ct0 t.
Proof.
  induction t using ty_ind'; intros Hok; try (apply rpx_r_ae; exact Hok);
    cbn [lexok] in Hok; try discriminate; cbn [rpx rast];
    repeat match goal with H : _ && _ = true |- _ => apply andb_prop in H as [? ?] end;
    repeat match goal with IH : lexok cp ?x = true -> _, H : lexok cp ?x = true |- _ => specialize (IH H) end;
    try (cbn [to_ae map]; f_equal; try reflexivity; congruence); try reflexivity.
  - apply to_ae_cls; exact Hok.
  - destruct ts as [|a r]; [reflexivity|]. cbn [to_ae]. rewrite map_map.
    rewrite (Forall_map_eq _ _ _ (Forall_mp _ _ _ H Hok)). reflexivity.
  - cbn [to_ae map]. rewrite IHt. reflexivity.
  - pose proof (Forall_mp _ _ _ H H1) as HF.
    destruct (existsb is_none_ty ts).
    + rewrite !filter_flag.
      pose proof (Forall_filter _ not_none _ HF) as HG.
      rewrite <- (Forall_map_eq _ _ _ HG).
      destruct (filter not_none ts) as [|a [|b r]]; try reflexivity.
      cbn [to_ae map]. rewrite !map_map. reflexivity.
    + cbn [to_ae]. rewrite map_map. rewrite (Forall_map_eq _ _ _ HF). reflexivity.
Qed.
End ToAe.

(* ------------------------------------------------------------------------------------------ *)
(* (iv) stripping module prefixes = printing from the stripped class table                     *)
(* ------------------------------------------------------------------------------------------ *)
(* every class becomes a builtin whose qualname is its stripped text *)
Definition strip_ct (mods : list string) (ct : ctable) : ctable :=
  map (fun e : cls * (string * string) =>
         (fst e, ("builtins", strip_mods mods (text_of (fst (snd e)) (snd (snd e)))))) ct.

Lemma cls_text_of ct c m q : cfind ct c = Some (m, q) -> cls_text ct c = text_of m q.
Proof. intros H. unfold cls_text, cmod, cqual, text_of. rewrite H. reflexivity. Qed.

Lemma strip_ct_find mods ct c : forall m q, cfind ct c = Some (m, q) ->
  cfind (strip_ct mods ct) c = Some ("builtins", strip_mods mods (text_of m q)).
Proof.
  induction ct as [|[c' [m' q']] r IH]; intros m q H; cbn [cfind strip_ct map fst snd] in *; [discriminate|].
  destruct (N.eqb c c'); [inversion H; subst; reflexivity | apply IH; exact H].
Qed.

Lemma strip_ct_text mods ct c : cls_in ct c = true ->
  cls_text (strip_ct mods ct) c = strip_mods mods (cls_text ct c)
  /\ cqual (strip_ct mods ct) c = strip_mods mods (cls_text ct c).
Proof.
  unfold cls_in. destruct (cfind ct c) as [[m q]|] eqn:E; [intros _|discriminate].
  rewrite (cls_text_of ct c m q E).
  unfold cls_text, cmod, cqual. rewrite (strip_ct_find mods ct c m q E). split; reflexivity.
Qed.

Lemma cls_lex_in ct c : cls_lex ct c = true -> cls_in ct c = true.
Proof. unfold cls_lex, cls_in. destruct (cfind ct c); [reflexivity | discriminate]. Qed.

Section Strip.
Variable ct : ctable.
Variable mods : list string.
Variable cp : cls -> bool.
Hypothesis Hcp : forall c, cp c = true -> cls_in ct c = true.

Let S := strip_mods mods.
Let ct' := strip_ct mods ct.

Lemma strip_cls_word c : cp c = true -> S (cls_word ct c) = cls_word ct' c.
Proof.
  intros H. unfold cls_word. destruct (N.eqb c cNone); [apply strip_nodot; reflexivity|].
  destruct (strip_ct_text mods ct c (Hcp c H)) as [H1 _]. symmetry. exact H1.
Qed.

Ltac nodot := unfold S; rewrite strip_nodot by reflexivity; reflexivity.

Lemma strip_rpx_r : forall t, lexok_r cp t = true -> mapw S (rpx_r ct t) = rpx_r ct' t.
Proof.
  induction t using ty_ind'; intros Hok; cbn [lexok_r] in Hok; try discriminate; cbn [rpx_r];
    repeat match goal with H : _ && _ = true |- _ => apply andb_prop in H as [? ?] end;
    repeat match goal with IH : lexok_r cp ?x = true -> _, H : lexok_r cp ?x = true |- _ => specialize (IH H) end;
    try (cbn [mapw map]; f_equal; [nodot | congruence]).
  - cbn [mapw]. f_equal. nodot.
  - cbn [mapw]. f_equal. apply strip_cls_word; exact Hok.
  - cbn [mapw]. f_equal. nodot.
  - destruct ts as [|a r]; [cbn [mapw map]; f_equal; nodot|].
    cbn [mapw]. f_equal; [nodot|]. rewrite map_map. apply Forall_map_eq. exact (Forall_mp _ _ _ H Hok).
  - pose proof (Forall_mp _ _ _ H H1) as HF.
    assert (G : mapw S (PSub "Union" (map (rpx_r ct) ts)) = PSub "Union" (map (rpx_r ct') ts)).
    { cbn [mapw]. f_equal; [nodot|]. rewrite map_map. apply Forall_map_eq. exact HF. }
    destruct ts as [|a [|b [|c r]]]; try exact G.
    inversion HF as [|? ? Ha HF']; subst. inversion HF' as [|? ? Hb _]; subst.
    destruct (is_none_ty a); [cbn [mapw map]; f_equal; [nodot | congruence]|].
    destruct (is_none_ty b); [cbn [mapw map]; f_equal; [nodot | congruence]|]. exact G.
Qed.

Lemma strip_rpx : forall t, lexok cp t = true -> mapw S (rpx ct t) = rpx ct' t.
Proof.
  induction t using ty_ind'; intros Hok; try (apply strip_rpx_r; exact Hok);
    cbn [lexok] in Hok; try discriminate; cbn [rpx];
    repeat match goal with H : _ && _ = true |- _ => apply andb_prop in H as [? ?] end;
    repeat match goal with IH : lexok cp ?x = true -> _, H : lexok cp ?x = true |- _ => specialize (IH H) end;
    try (cbn [mapw map]; f_equal; [nodot | congruence]).
  - cbn [mapw]. f_equal. nodot.
  - cbn [mapw]. f_equal. apply strip_cls_word; exact Hok.
  - cbn [mapw]. f_equal. nodot.
  - destruct ts as [|a r]; [cbn [mapw map]; f_equal; nodot|].
    cbn [mapw]. f_equal; [nodot|]. rewrite map_map. apply Forall_map_eq. exact (Forall_mp _ _ _ H Hok).
  - cbn [mapw map]. f_equal; [nodot|]. rewrite IHt. do 2 f_equal. nodot.
  - pose proof (Forall_mp _ _ _ H H1) as HF.
    destruct (existsb is_none_ty ts).
    + rewrite !filter_flag.
      pose proof (Forall_filter _ not_none _ HF) as HG.
      rewrite <- (Forall_map_eq _ _ _ HG).
      destruct (filter not_none ts) as [|a [|b r]].
      * cbn [mapw map]. f_equal; [nodot|]. do 2 f_equal. nodot.
      * cbn [mapw map]. f_equal. nodot.
      * cbn [mapw map]. f_equal; [nodot|]. do 2 f_equal; [nodot|]. rewrite !map_map. reflexivity.
    + cbn [mapw]. f_equal; [nodot|]. rewrite map_map. apply Forall_map_eq. exact HF.
  - cbn [mapw]. f_equal. unfold fwd_name_ok in Hok.
    apply andb_prop in Hok as [Hok _]. apply andb_prop in Hok as [_ Hok]. apply negb_true_iff in Hok.
    apply strip_nodot; exact Hok.
Qed.
End Strip.

(* ------------------------------------------------------------------------------------------ *)
(* main theorems                                                                               *)
(* ------------------------------------------------------------------------------------------ *)
Lemma wordb_suffix q : forall a ne, wordb (a +++ "." +++ q) ne = true -> wordb q false = true.
Proof.
  induction a as [|c a IH]; intros ne H.
  - cbn in H. apply andb_prop in H as [_ H]. exact H.
  - cbn [append wordb] in H. destruct (Ascii.eqb c ".").
    + apply andb_prop in H as [_ H]. exact (IH _ H).
    + apply andb_prop in H as [_ H]. exact (IH _ H).
Qed.

(* the lexical condition survives stripping when stripping a class's own text yields its qualname *)
Lemma cls_lex_strip ct mods c :
  cls_lex ct c = true ->
  N.eqb c cNone || String.eqb (strip_mods mods (cls_text ct c)) (cqual ct c) = true ->
  cls_lex (strip_ct mods ct) c = true.
Proof.
  unfold cls_lex at 1. destruct (cfind ct c) as [[m q]|] eqn:E; [|discriminate].
  intros H Hs. unfold cls_lex. rewrite (strip_ct_find mods ct c m q E).
  rewrite (cls_text_of ct c m q E) in Hs. unfold cqual in Hs. rewrite E in Hs.
  unfold entry_ok in *. apply andb_prop in H as [Hd H]. destruct (N.eqb c cNone).
  - apply andb_prop in H as [Hm Hq]. apply String.eqb_eq in Hm, Hq. subst.
    rewrite strip_nodot by reflexivity. reflexivity.
  - cbn [orb] in Hs. apply String.eqb_eq in Hs. rewrite Hs.
    change (text_of "builtins" q) with q.
    unfold text_of in Hd, H. destruct (String.eqb m "builtins"); [rewrite Hd, H; reflexivity|].
    unfold dotted in *. rewrite (wordb_suffix q m false Hd).
    rewrite <- app_assoc_s in H. rewrite (clean_suffix q (m +++ ".") H). reflexivity.
Qed.

(* ---- side conditions, per class ---- *)
(* nothing to strip: the class is a builtin *)
Definition cls_plain_ok (ct : ctable) (c : cls) : bool :=
  cls_lex ct c && (N.eqb c cNone || String.eqb (cmod ct c) "builtins").
(* stripping the class's own text yields its qualname *)
Definition cls_strip_ok (ct : ctable) (mods : list string) (c : cls) : bool :=
  cls_lex ct c && (N.eqb c cNone || String.eqb (strip_mods mods (cls_text ct c)) (cqual ct c)).
(* lexically sane before and after stripping (no relation to the qualname asked) *)
Definition cls_both_ok (ct : ctable) (mods : list string) (c : cls) : bool :=
  cls_lex ct c && cls_lex (strip_ct mods ct) c.

(* lexok implies the class `ok` of render_resolves_tok *)
Lemma lexok_r_ok cp : forall t, lexok_r cp t = true -> ok_r t = true.
Proof.
  induction t using ty_ind'; intros Hok; cbn [lexok_r ok_r] in *; try discriminate; try reflexivity; auto;
    repeat match goal with H : _ && _ = true |- _ => apply andb_prop in H as [? ?] end;
    repeat (apply andb_true_intro; split); auto.
  - pose proof (Forall_mp _ _ _ H Hok) as HF. rewrite forallb_forall. rewrite Forall_forall in HF. exact HF.
  - pose proof (Forall_mp _ _ _ H H1) as HF. rewrite forallb_forall. rewrite Forall_forall in HF. exact HF.
Qed.

Lemma lexok_ok cp : forall t, lexok cp t = true -> ok t = true.
Proof.
  induction t using ty_ind'; intros Hok; try (apply (lexok_r_ok cp); exact Hok);
    cbn [lexok ok] in *; try discriminate; try reflexivity; auto;
    repeat match goal with H : _ && _ = true |- _ => apply andb_prop in H as [? ?] end;
    repeat (apply andb_true_intro; split); auto.
  - pose proof (Forall_mp _ _ _ H Hok) as HF. rewrite forallb_forall. rewrite Forall_forall in HF. exact HF.
  - pose proof (Forall_mp _ _ _ H H1) as HF. rewrite forallb_forall. rewrite Forall_forall in HF. exact HF.
Qed.

(* 1. tokenizer and parser invert the printer, in the qualified class table *)
Theorem parse_back_qualified ct t :
  lexok (cls_lex ct) t = true ->
  ra ct t = ppx (rpx ct t) /\ parse_anno (ra ct t) = Some (rast (strip_ct [] ct) t).
Proof.
  intros H. pose (cp := cls_lex ct). assert (Hcp : forall c, cp c = true -> cls_lex ct c = true) by auto.
  destruct (ra_px ct cp Hcp t H) as [E _]. split; [exact E|]. rewrite E.
  rewrite (parse_ppx _ (rpx_wf ct cp Hcp t H)). f_equal.
  apply (rpx_ae ct (strip_ct [] ct) cp); [|exact H].
  intros c Hc _. destruct (strip_ct_text [] ct c (cls_lex_in ct c Hc)) as [_ Hq].
  rewrite Hq, strip_nil. reflexivity.
Qed.

(* 1'. ... and when every class of t is a builtin, the parse is the token-level rendering itself *)
Theorem parse_back ct t :
  lexok (cls_plain_ok ct) t = true -> parse_anno (ra ct t) = Some (rast ct t).
Proof.
  intros H. pose (cp := cls_plain_ok ct).
  assert (Hcp : forall c, cp c = true -> cls_lex ct c = true).
  { intros c Hc. unfold cp, cls_plain_ok in Hc. apply andb_prop in Hc as [Hc _]. exact Hc. }
  destruct (ra_px ct cp Hcp t H) as [E _]. rewrite E.
  rewrite (parse_ppx _ (rpx_wf ct cp Hcp t H)). f_equal.
  apply (rpx_ae ct ct cp); [|exact H].
  intros c Hc Hn. unfold cp, cls_plain_ok in Hc. apply andb_prop in Hc as [_ Hc].
  apply N.eqb_neq in Hn. rewrite Hn in Hc. cbn [orb] in Hc. unfold cls_text. rewrite Hc. reflexivity.
Qed.

(* 2. stripping the text = printing from the stripped class table; and the result parses *)
Theorem strip_tokenwise ct mods t :
  mods_ok mods = true -> lexok (cls_both_ok ct mods) t = true ->
  strip_mods mods (ra ct t) = ra (strip_ct mods ct) t
  /\ parse_anno (strip_mods mods (ra ct t)) = Some (rast (strip_ct mods ct) t).
Proof.
  intros Hm H. pose (cp := cls_both_ok ct mods).
  assert (Hcp1 : forall c, cp c = true -> cls_lex ct c = true).
  { intros c Hc. unfold cp, cls_both_ok in Hc. apply andb_prop in Hc as [Hc _]. exact Hc. }
  assert (Hcp2 : forall c, cp c = true -> cls_lex (strip_ct mods ct) c = true).
  { intros c Hc. unfold cp, cls_both_ok in Hc. apply andb_prop in Hc as [_ Hc]. exact Hc. }
  assert (Hin : forall c, cp c = true -> cls_in ct c = true) by (intros c Hc; apply cls_lex_in; auto).
  destruct (ra_px ct cp Hcp1 t H) as [E _]. destruct (ra_px (strip_ct mods ct) cp Hcp2 t H) as [E' _].
  assert (Es : strip_mods mods (ra ct t) = ra (strip_ct mods ct) t).
  { rewrite E, E'. rewrite (ppx_distr _ (strip_ddistr mods Hm) (strip_ell mods Hm)).
    rewrite (strip_rpx ct mods cp Hin t H). reflexivity. }
  split; [exact Es|]. rewrite Es, E'.
  rewrite (parse_ppx _ (rpx_wf (strip_ct mods ct) cp Hcp2 t H)). f_equal.
  apply (rpx_ae (strip_ct mods ct) (strip_ct mods ct) cp); [|exact H].
  intros c Hc _. destruct (strip_ct_text mods ct c (Hin c Hc)) as [H1 H2]. congruence.
Qed.

(* 2'. the premise of render_resolves_partial *)
Theorem tokenwise_holds ct mods t :
  mods_ok mods = true -> lexok (cls_strip_ok ct mods) t = true ->
  parse_anno (strip_mods mods (ra ct t)) = Some (rast ct t).
Proof.
  intros Hm H. pose (cp := cls_strip_ok ct mods).
  assert (Hcp1 : forall c, cp c = true -> cls_lex ct c = true).
  { intros c Hc. unfold cp, cls_strip_ok in Hc. apply andb_prop in Hc as [Hc _]. exact Hc. }
  assert (Hcp2 : forall c, cp c = true -> cls_lex (strip_ct mods ct) c = true).
  { intros c Hc. unfold cp, cls_strip_ok in Hc. apply andb_prop in Hc as [Hc Hs].
    apply cls_lex_strip; assumption. }
  assert (Hin : forall c, cp c = true -> cls_in ct c = true) by (intros c Hc; apply cls_lex_in; auto).
  destruct (ra_px ct cp Hcp1 t H) as [E _].
  rewrite E. rewrite (ppx_distr _ (strip_ddistr mods Hm) (strip_ell mods Hm)).
  rewrite (strip_rpx ct mods cp Hin t H).
  rewrite (parse_ppx _ (rpx_wf (strip_ct mods ct) cp Hcp2 t H)). f_equal.
  apply (rpx_ae (strip_ct mods ct) ct cp); [|exact H].
  intros c Hc Hn. destruct (strip_ct_text mods ct c (Hin c Hc)) as [H1 _]. rewrite H1.
  unfold cp, cls_strip_ok in Hc. apply andb_prop in Hc as [_ Hc].
  apply N.eqb_neq in Hn. rewrite Hn in Hc. cbn [orb] in Hc. apply String.eqb_eq in Hc. exact Hc.
Qed.

(* 2''. render_resolves_partial without its premise *)
Theorem resolves_text_uncond ct ns mods t :
  binds_base ns -> binds_cls_l ct ns (tcls t) ->
  mods_ok mods = true -> lexok (cls_strip_ok ct mods) t = true ->
  eval_text ct ns (strip_mods mods (ra ct t)) = Some (evt t).
Proof.
  intros Hb Hc Hm H. apply resolves_text; [exact Hb | exact Hc | exact (lexok_ok _ t H) |].
  apply tokenwise_holds; assumption.
Qed.

(* no module to strip *)
Theorem resolves_text_plain ct ns t :
  binds_base ns -> binds_cls_l ct ns (tcls t) -> lexok (cls_plain_ok ct) t = true ->
  eval_text ct ns (ra ct t) = Some (evt t).
Proof.
  intros Hb Hc H. rewrite <- (strip_nil (ra ct t)).
  apply resolves_text; [exact Hb | exact Hc | exact (lexok_ok _ t H) |].
  rewrite strip_nil. apply parse_back; exact H.
Qed.
