"""Generated target programs for the tracer properties (C02, C17-gate, C18, C03) and the recorder they are run
under.  A program is a Python module (source text) whose functions record their own ground truth through the
untraced helper `R` (entry values, every yield / await / return / raise just before it happens); a workload drives
them (plain calls, interleaved generators with next/send/close/throw/drop, coroutines that really suspend).

Runs inside a subprocess (harness/tracer_run.py)."""
import random

HELPER_SRC = '''
import sys
class _Rec:
    """Ground-truth recorder.  Lives in its own module: the recording profiler ignores frames of this file and the
    code filter handed to the real CallTracer rejects them."""
    def __init__(self):
        self.reset()
    def reset(self):
        self.obs = []          # (co_qualname, kind, name or None, value): every value observed at a position
        self.deleg = {}        # id(frame) -> True while the frame delegates with `yield from`
        self.pending = {}      # id(frame) -> list of (kind, value) not yet matched with a return event
        self.entry = {}        # id(frame) -> dict name -> value at entry
        self.frames = []       # keep frames alive so ids are never reused
        self.funcs = {}        # code -> function object (ground truth of attribution)
        self.unresolvable = set()   # codes whose function the program itself made unreachable by name
    def reg(self, fn, resolvable=True):
        """ground truth of attribution.  resolvable=False: the program has made the function unreachable by name (its
        global was rebound), so the property does not speak about its calls"""
        f = fn
        seen = 0
        while hasattr(f, "__wrapped__") and seen < 5:
            f = f.__wrapped__; seen += 1
        self.funcs[(f.__code__.co_filename, f.__code__)] = f      # code objects compare by content, not by file
        if not resolvable:
            self.unresolvable.add((f.__code__.co_filename, f.__code__))
        return fn
    def enter(self, names):
        fr = sys._getframe(1)
        self.frames.append(fr)
        loc = fr.f_locals
        # (a shallow snapshot of plain containers: a program may change them in place after the call)
        self.entry[id(fr)] = {n: (type(loc[n])(loc[n]) if type(loc[n]) in (list, dict, set) else loc[n]) for n in names if n in loc}
        q = fr.f_code.co_qualname
        for n in names:
            if n in loc:
                self.obs.append((q, "param", n, loc[n]))
    def tick(self):
        """a counter the programs use to pick call-dependent values (so two calls with equal arguments can still
        return / yield values of different types)"""
        self.n = getattr(self, "n", 0) + 1
        return self.n

    def act(self, kind, value=None):
        fr = sys._getframe(1)
        if kind == "delegate":          # the frame is about to `yield from` another generator
            self.deleg[id(fr)] = True
            return
        if kind == "undelegate":
            self.deleg.pop(id(fr), None)
            return
        self.pending.setdefault(id(fr), []).append((kind, value))
        if kind in ("yield", "return"):
            self.obs.append((fr.f_code.co_qualname, kind, None, value))
R = _Rec()

class Susp:
    """An awaitable that suspends the awaiting coroutine exactly once."""
    def __await__(self):
        yield None

def drive(coro):
    try:
        while True:
            coro.send(None)
    except StopIteration as e:
        return e.value

class Boom(Exception):
    pass
'''


class ProgGen:
    """Builds one program: (source text, number of value slots).  Values are referred to as V[i]; the runner
    fills V with generated runtime values."""

    def __init__(self, rnd: random.Random, nvals: int, safe_generators: bool = False, many_live: int = 0):
        self.r = rnd
        self.many_live = many_live      # > 0: the workload also keeps that many generator frames suspended at once
        self.nvals = nvals
        self.safe_generators = safe_generators
        self.lines = []
        self.plain = []      # (callable expr, arity spec) usable by the workload: list of (expr, call template)
        self.gens = []
        self.coros = []

    def v(self):
        if self.r.random() < 0.2:
            return f"V[R.tick() % {self.nvals}]"          # differs from call to call
        return f"V[{self.r.randrange(self.nvals)}]"

    def w(self, s=""):
        self.lines.append(s)

    # ---- function bodies ----
    def exit_stmts(self, ind, allow_raise=True):
        """one of: return constant / expression / implicit None / raise"""
        c = self.r.random()
        p = " " * ind
        if c < 0.25:
            k = self.r.choice(["None", "1", "'s'", "True", "(1, 2)"])
            return [f"{p}R.act('return', {k})", f"{p}return {k}"]
        if c < 0.6:
            return [f"{p}_v = {self.v()}", f"{p}R.act('return', _v)", f"{p}return _v"]
        if c < 0.8 or not allow_raise:
            return [f"{p}R.act('return', None)"]          # falls off the end: implicit return None
        return [f"{p}R.act('raise')", f"{p}raise Boom('x')"]

    def params(self):
        """random parameter list: returns (signature text, names, call-args template builder)"""
        r = self.r
        shape = r.choice(["a", "a, b", "a, b=None", "a, /, b", "a, *, k", "a, *args", "a, **kw", "a, b=1, *args, k=None, **kw", "",
                          "a, /, *args", "a, /, b=None, **kw"])
        names = {"a": ["a"], "a, b": ["a", "b"], "a, b=None": ["a", "b"], "a, /, b": ["a", "b"], "a, *, k": ["a", "k"],
                 "a, *args": ["a", "args"], "a, **kw": ["a", "kw"], "a, b=1, *args, k=None, **kw": ["a", "b", "k", "args", "kw"],
                 "": [], "a, /, *args": ["a", "args"], "a, /, b=None, **kw": ["a", "b", "kw"]}[shape]
        calls = {"a": ["{0}"], "a, b": ["{0}, {1}", "{0}, b={1}"], "a, b=None": ["{0}", "{0}, {1}"], "a, /, b": ["{0}, {1}", "{0}, b={1}"],
                 "a, *, k": ["{0}, k={1}"], "a, *args": ["{0}", "{0}, {1}, {2}"], "a, **kw": ["{0}", "{0}, x={1}, y={2}"],
                 "a, b=1, *args, k=None, **kw": ["{0}", "{0}, {1}, {2}, k={1}, z={0}", "{0}, k={2}"], "": [""],
                 "a, /, *args": ["{0}", "{0}, {1}, {2}"], "a, /, b=None, **kw": ["{0}", "{0}, {1}, x={2}"]}[shape]
        return shape, names, calls

    def argtext(self, calls):
        t = self.r.choice(calls)
        return t.format(self.v(), self.v(), self.v())

    def def_plain(self, name, ind=0, receiver=None, deco=None, body_calls=()):
        shape, names, calls = self.params()
        p = " " * ind
        sig = shape if receiver is None else (receiver + (", " + shape if shape else ""))
        if deco:
            self.w(f"{p}{deco}")
        self.w(f"{p}def {name}({sig}):")
        allnames = ([receiver] if receiver else []) + names
        self.w(f"{p}    R.enter({allnames!r})")
        if names and self.r.random() < 0.3:
            # rebind a parameter, then call builtins (c_call / c_return events inside this frame)
            self.w(f"{p}    {self.r.choice(names)} = {self.v()}")
            self.w(f"{p}    _n = len(V) + isinstance(V, list) + len(sorted([2, 1]))")
        for c in body_calls:
            self.w(f"{p}    try:")
            self.w(f"{p}        {c}")
            self.w(f"{p}    except Boom:")
            self.w(f"{p}        pass")
        for l in self.exit_stmts(ind + 4):
            self.w(l)
        return calls

    def def_gen(self, name, ind=0):
        shape, names, calls = self.params()
        p = " " * ind
        self.w(f"{p}def {name}({shape}):")
        self.w(f"{p}    R.enter({names!r})")
        n = self.r.choice([0, 1, 2, 2, 3])
        use_try = self.r.random() < 0.25
        if use_try:
            self.w(f"{p}    try:")
            p2 = p + "    "
        else:
            p2 = p
        for i in range(n):
            if names and self.r.random() < 0.5:      # rebind a parameter between yields (C18)
                self.w(f"{p2}    {self.r.choice(names)} = {self.v()}")
                if self.r.random() < 0.5:            # ... and call a builtin (a c_call / c_return event pair in this frame)
                    self.w(f"{p2}    _n = len(V) + isinstance(V, list)")
            if self.r.random() < 0.2:
                self.w(f"{p2}    R.act('yield', None)")
                self.w(f"{p2}    yield")
            else:
                self.w(f"{p2}    _v = {self.v()}")
                self.w(f"{p2}    R.act('yield', _v)")
                self.w(f"{p2}    _s = yield _v")
        if self.gens and not self.safe_generators and self.r.random() < 0.3:
            e, gcalls = self.r.choice(self.gens)
            self.w(f"{p2}    R.act('delegate')")
            self.w(f"{p2}    _d = yield from {e}({self.argtext(gcalls)})")
            self.w(f"{p2}    R.act('undelegate')")
            n = max(n, 1)
        if n == 0:
            self.w(f"{p2}    if False:")
            self.w(f"{p2}        yield")
        if use_try:
            self.w(f"{p}    finally:")
            self.w(f"{p}        _z = 0")
        for l in self.exit_stmts(ind + 4):
            self.w(l)
        return calls

    def def_coro(self, name, ind=0):
        shape, names, calls = self.params()
        p = " " * ind
        self.w(f"{p}async def {name}({shape}):")
        self.w(f"{p}    R.enter({names!r})")
        for i in range(self.r.choice([0, 1, 2, 3])):
            if names and self.r.random() < 0.5:      # rebind a parameter before suspending
                self.w(f"{p}    {self.r.choice(names)} = {self.v()}")
            self.w(f"{p}    R.act('await')")
            self.w(f"{p}    await Susp()")
        for l in self.exit_stmts(ind + 4):
            self.w(l)
        return calls

    # ---- whole program ----
    def build(self):
        r = self.r
        self.w("import abc, functools")
        self.w("from vrec import R, Susp, drive, Boom")
        self.w("V = []")
        self.w("")
        # module functions
        nplain = r.choice([2, 3, 4])
        for i in range(nplain):
            body_calls = []
            if self.plain and r.random() < 0.5:         # nesting: call an earlier function
                e, calls = r.choice(self.plain)
                body_calls.append(f"{e}({self.argtext(calls)})")
            calls = self.def_plain(f"f{i}", body_calls=body_calls)
            self.w(f"R.reg(f{i})")
            self.plain.append((f"f{i}", calls))
            self.w("")
        # a function that shares the tracer's own reserved name
        if r.random() < 0.3:
            calls = self.def_plain("trace_types")
            self.w("R.reg(trace_types)")
            self.plain.append(("trace_types", calls))
        # recursion
        if r.random() < 0.5:
            self.w("def rec(n, a=None):")
            self.w("    R.enter(['n', 'a'])")
            self.w("    if n > 0:")
            self.w("        rec(n - 1, a)")
            self.w(f"    _v = {self.v()}")
            self.w("    R.act('return', _v)")
            self.w("    return _v")
            self.w("R.reg(rec)")
            self.plain.append(("rec", ["%d, {0}" % r.choice([1, 2, 3])]))
            self.w("")
        # a closure returned by its factory: the harness keeps the only reference in a local of the BOTTOM frame of a new
        # thread's stack and calls it from there (harness/tracer_run.py), so the lookup has to reach the outermost frame
        if not self.safe_generators and r.random() < 0.35:
            self.w("def make_held():")
            self.w("    R.enter([])")
            self.w("    def held(a, b=None):")
            self.w("        R.enter(['a', 'b'])")
            self.w(f"        _v = {self.v()}")
            self.w("        R.act('return', _v)")
            self.w("        return _v")
            self.w("    R.reg(held)")
            self.w("    R.act('return', held)")
            self.w("    return held")
            self.w("R.reg(make_held)")
            self.w("")
            # ... and a generator that the harness starts in one thread and runs to exhaustion in another
            self.w("def held_gen(a):")
            self.w("    R.enter(['a'])")
            self.w("    _v = V[0]")
            self.w("    R.act('yield', _v)")
            self.w("    yield _v")
            self.w("    _v = V[1]")
            self.w("    R.act('yield', _v)")
            self.w("    yield _v")
            self.w("    R.act('return', None)")
            self.w("R.reg(held_gen)")
            self.w("")
        # a function that is handed the same container several times, changed in place in between (see main)
        if not self.safe_generators and r.random() < 0.4:
            self.has_buf = True
            self.w("def takes_buf(a, b=None):")
            self.w("    R.enter(['a', 'b'])")
            self.w("    R.act('return', None)")
            self.w("R.reg(takes_buf)")
            self.w("")
        # decorator with functools.wraps
        if r.random() < 0.6:
            self.w("def deco(fn):")
            self.w("    @functools.wraps(fn)")
            self.w("    def wrapper(*args, **kwargs):")
            self.w("        R.enter(['args', 'kwargs'])")
            self.w("        _v = fn(*args, **kwargs)")
            self.w("        R.act('return', _v)")
            self.w("        return _v")
            self.w("    R.funcs[(wrapper.__code__.co_filename, wrapper.__code__)] = wrapper")
            # the wrapper closure itself carries no name a lookup could use (its code is called `wrapper`, the global is
            # named after the wrapped function): only the wrapped function is resolvable, through __wrapped__
            self.w("    R.unresolvable.add((wrapper.__code__.co_filename, wrapper.__code__))")
            self.w("    return wrapper")
            calls = self.def_plain("wrapped", deco="@deco")
            self.w("R.reg(wrapped)")
            self.plain.append(("wrapped", calls))
            self.w("")
        # a plain closure decorator WITHOUT functools.wraps: the global name is bound to the wrapper, the original is
        # reachable only through the wrapper frame's free variable (a local of a frame still on the stack)
        if not self.safe_generators and r.random() < 0.3:
            self.w("def deco2(fn):")
            self.w("    def wrapper2(*args, **kwargs):")
            self.w("        R.enter(['args', 'kwargs'])")
            self.w("        _v = fn(*args, **kwargs)")
            self.w("        R.act('return', _v)")
            self.w("        return _v")
            self.w("    R.funcs[(wrapper2.__code__.co_filename, wrapper2.__code__)] = wrapper2")
            self.w("    R.unresolvable.add((wrapper2.__code__.co_filename, wrapper2.__code__))")
            self.w("    R.reg(fn)")
            self.w("    return wrapper2")
            calls = self.def_plain("plainwrapped", deco="@deco2")
            self.plain.append(("plainwrapped", calls))
            self.w("")
        # a class-based decorator (functools.update_wrapper on an instance): the global name is bound to an object that is
        # not a function; the original is reachable through its __wrapped__
        if not self.safe_generators and r.random() < 0.3:
            self.w("class CDeco:")
            self.w("    def __init__(self, fn):")
            self.w("        functools.update_wrapper(self, fn)")
            self.w("        self.fn = fn")
            self.w("    def __call__(self, *args, **kwargs):")
            self.w("        R.enter(['self', 'args', 'kwargs'])")
            self.w("        _v = self.fn(*args, **kwargs)")
            self.w("        R.act('return', _v)")
            self.w("        return _v")
            self.w("    R.reg(__call__)")
            calls = self.def_plain("cdecorated", deco="@CDeco")
            self.w("R.reg(cdecorated)")
            self.plain.append(("cdecorated", calls))
            self.w("")
        # closure
        if r.random() < 0.6:
            self.w("def outer(a):")
            self.w("    R.enter(['a'])")
            self.w("    def inner(b):")
            self.w("        R.enter(['b'])")
            self.w("        _v = (a, b)")
            self.w("        R.act('return', _v)")
            self.w("        return _v")
            self.w("    R.reg(inner)")
            self.w(f"    _v = inner({self.v()})")
            self.w("    R.act('return', _v)")
            self.w("    return _v")
            self.w("R.reg(outer)")
            self.plain.append(("outer", ["{0}"]))
            self.w("")
        if not self.safe_generators and r.random() < 0.3:
            # a recursive closure that is reachable only through its own free variable: it is called through a
            # container, so no caller frame holds it in a local and no global carries its name
            self.w("REG = {}")
            self.w("def make_cd():")
            self.w("    def cd(n, a=None):")
            self.w("        R.enter(['n', 'a'])")
            self.w("        if n > 0:")
            self.w("            cd(n - 1, a)")
            self.w(f"        _v = {self.v()}")
            self.w("        R.act('return', _v)")
            self.w("        return _v")
            self.w("    R.reg(cd)")
            self.w("    REG['cd'] = cd")
            self.w("make_cd()")
            self.plain.append(("REG['cd']", ["%d, {0}" % r.choice([0, 1, 2])]))
            self.w("")
        if not self.safe_generators and r.random() < 0.3:
            # class methods of classes that are not module globals: a class nested in a class, a class built in a function
            self.w("class Shape:")
            self.w("    class Registry:")
            cn = self.def_plain("register", ind=8, receiver="cls", deco="@classmethod")
            self.w("        R.reg(register.__func__)")
            self.w("def build_model():")
            self.w("    class Model:")
            cb = self.def_plain("create", ind=8, receiver="cls", deco="@classmethod")
            self.w("        R.reg(create.__func__)")
            self.w("    return Model")
            self.w("LocalModel = [build_model()]")
            self.plain += [("Shape.Registry.register", cn), ("Shape.Registry().register", cn), ("LocalModel[0].create", cb)]
            self.w("")
        if not self.safe_generators and r.random() < 0.3:
            # a lambda bound to a local of a frame that is still on the stack: resolvable through that frame's locals
            self.w("def uses_lambda(a):")
            self.w("    R.enter(['a'])")
            # two lambdas on ONE line: same name, same first line, same file - two code objects
            self.w("    key, key2 = (lambda p: (R.enter(['p']), R.act('return', p), p)[2]), (lambda p, q=None: (R.enter(['p', 'q']), R.act('return', (p, q)), (p, q))[2])")
            self.w("    R.reg(key)")
            self.w("    R.reg(key2)")
            self.w(f"    _w = key2(a, {self.v()})")
            self.w("    _v = key(a)")
            self.w("    R.act('return', _v)")
            self.w("    return _v")
            self.w("R.reg(uses_lambda)")
            self.plain.append(("uses_lambda", ["{0}"]))
            self.w("")
        # classes
        if r.random() < 0.8:
            if r.random() < 0.4:
                # another class, EARLIER in the module, with a static and a class method of the same names as Base's:
                # the scan over the module's classes meets it first and must not take its functions for Base's
                self.w("class Early:")
                e3 = self.def_plain("sm", ind=4, deco="@staticmethod")
                self.w("    R.reg(sm.__func__ if hasattr(sm, '__func__') else sm)")
                e2 = self.def_plain("cm", ind=4, receiver="cls", deco="@classmethod")
                self.w("    R.reg(cm.__func__)")
                self.w("")
                self.plain += [("Early.sm", e3), ("Early.cm", e2)]
            # sometimes with a metaclass other than `type` (abc.ABC-style): still a class to every lookup
            self.w("class Base(metaclass=abc.ABCMeta):" if r.random() < 0.4 else "class Base:")
            c1 = self.def_plain("m", ind=4, receiver="self")
            self.w("    R.reg(m)")
            c2 = self.def_plain("cm", ind=4, receiver="cls", deco="@classmethod")
            self.w("    R.reg(cm.__func__)")
            c3 = self.def_plain("sm", ind=4, deco="@staticmethod")
            self.w("    R.reg(sm.__func__ if hasattr(sm, '__func__') else sm)")
            self.w("    @property")
            self.w("    def prop(self):")
            self.w("        R.enter(['self'])")
            for l in self.exit_stmts(8, allow_raise=False):
                self.w(l)
            self.w("    R.reg(prop.fget)")
            self.w("")
            self.w("class Derived(Base):")
            self.w("    def m(self, *args, **kw):")
            self.w("        R.enter(['self', 'args', 'kw'])")
            self.w("        try:")
            self.w("            _v = super().m(*args, **kw)")
            self.w("        except Boom:")
            self.w("            _v = None")
            self.w("        R.act('return', _v)")
            self.w("        return _v")
            self.w("    R.reg(m)")
            self.w("")
            self.plain += [("Base().m", c1), ("Derived().m", c1), ("Base.cm", c2), ("Derived.cm", c2), ("Base.sm", c3),
                           ("Derived().sm", c3)]
            self.props = ["Base().prop", "Derived().prop"]
        else:
            self.props = []
        for i in range(r.choice([1, 2, 3])):
            calls = self.def_gen(f"g{i}")
            self.w(f"R.reg(g{i})")
            self.gens.append((f"g{i}", calls))
            self.w("")
        if r.random() < 0.35:
            # a generator decorated with types.coroutine: CO_ITERABLE_COROUTINE, but its yields are real yields
            self.w("import types as _types")
            self.w("@_types.coroutine")
            self.w("def tco(a):")
            self.w("    R.enter(['a'])")
            self.w(f"    _v = {self.v()}")
            self.w("    R.act('yield', _v)")
            self.w("    _s = yield _v")
            self.w("    R.act('yield', a)")
            self.w("    _s = yield a")
            self.w("    R.act('return', None)")
            self.w("R.reg(tco)")
            self.gens.append(("tco", ["{0}"]))
            self.w("")
        if not self.safe_generators and r.random() < 0.35:      # (the end-to-end tie keys its observations by qualified name)
            # the same qualified name for two different code objects: a helper defined differently in two branches,
            # both variants run in one session (the first one through an alias)
            self.w("def variant(a):")
            self.w("    R.enter(['a'])")
            self.w("    R.act('return', 1)")
            self.w("    return 1")
            self.w("R.reg(variant, resolvable=False)")     # its global name is rebound below
            self.w("variant_old = variant")
            self.w("def variant(a, b=None):")
            self.w("    R.enter(['a', 'b'])")
            self.w("    _v = (a, b)")
            self.w("    R.act('return', _v)")
            self.w("    return _v")
            self.w("R.reg(variant)")
            self.plain.append(("variant_old", ["{0}"]))
            self.plain.append(("variant", ["{0}", "{0}, {1}"]))
            self.w("")
        for i in range(r.choice([0, 1, 2])):
            calls = self.def_coro(f"co{i}")
            self.w(f"R.reg(co{i})")
            self.coros.append((f"co{i}", calls))
            self.w("")
        if self.many_live:
            self.w("def sg(a, b=None):")
            self.w("    R.enter(['a', 'b'])")
            self.w("    _v = V[R.tick() % 3]")
            self.w("    R.act('yield', _v)")
            self.w("    _s = yield _v")
            self.w("    a = V[3]")
            self.w("    _v = V[4]")
            self.w("    R.act('yield', _v)")
            self.w("    _s = yield _v")
            self.w("    R.act('return', a)")
            self.w("    return a")
            self.w("R.reg(sg)")
            self.w("")
        # workload
        self.w("def main():")
        self.w("    R.enter([])")
        self.w("    live = {}")
        nops = r.randrange(4, 16)
        live = []
        gid = 0
        for _ in range(nops):
            c = r.random()
            if c < 0.35 or not self.gens:
                e, calls = r.choice(self.plain)
                self.w("    try:")
                self.w(f"        {e}({self.argtext(calls)})")
                self.w("    except Boom:")
                self.w("        pass")
            elif c < 0.42 and self.props:
                self.w(f"    _p = {r.choice(self.props)}")
            elif c < 0.55 and self.coros:
                e, calls = r.choice(self.coros)
                self.w("    try:")
                self.w(f"        drive({e}({self.argtext(calls)}))")
                self.w("    except Boom:")
                self.w("        pass")
            elif c < 0.70 or not live:
                e, calls = r.choice(self.gens)
                self.w(f"    live[{gid}] = {e}({self.argtext(calls)})")
                live.append(gid)
                gid += 1
            else:
                g = r.choice(live)
                how = r.random()
                if self.safe_generators:
                    how = how * 0.7 if how < 0.9 else 0.92      # only next / send / list
                if how < 0.6:
                    op = f"next(live[{g}])"
                elif how < 0.7:
                    op = f"live[{g}].send(None)"
                elif how < 0.8:
                    op = f"live[{g}].close()"
                elif how < 0.9:
                    op = f"live[{g}].throw(Boom('t'))"
                else:
                    op = f"list(live[{g}])"
                self.w("    try:")
                self.w(f"        {op}")
                self.w("    except (StopIteration, Boom):")
                self.w("        pass")
                if how >= 0.95:
                    self.w(f"    del live[{g}]")
                    live.remove(g)
        if self.safe_generators:
            self.w("    for _g in list(live.values()):")
            self.w("        try:")
            self.w("            list(_g)")
            self.w("        except Boom:")
            self.w("            pass")
        if getattr(self, "has_buf", False):
            # the same container passed again after it was changed IN PLACE (same identity, same length)
            self.w("    _buf = [V[1]]")
            self.w("    takes_buf(_buf)")
            self.w("    _buf[0] = V[2]")
            self.w("    takes_buf(_buf)")
            self.w("    _buf[0] = V[3]")
            self.w("    takes_buf(_buf, _buf)")
            self.w("    _dbuf = {1: V[1]}")
            self.w("    takes_buf(_dbuf)")
            self.w("    _dbuf[1] = V[4]")
            self.w("    takes_buf(_dbuf)")
        if self.many_live:
            self.w(f"    _many = [sg(V[i % {self.nvals}], i) for i in range({self.many_live})]")
            self.w("    for _g in _many:")
            self.w("        next(_g)")
            self.w("    for _g in _many:")
            self.w("        next(_g)")
            self.w("    for _g in reversed(_many):")
            self.w("        list(_g)")
        self.w("    R.act('return', None)")
        self.w("R.reg(main)")
        return "\n".join(self.lines) + "\n"
