(* C04 — inferred types admit every observed value, for every TypedDict size limit; inference is total; the merged
   type does not depend on the order (and, outside one recorded class, the multiplicity) in which values were seen.
   Only statements, `exact`, Print Assumptions and non-vacuity examples live here. *)
From MT Require Import Types Infer GetTypeSound InferTotal MergePermBase MergePerm MergePermInfer MergePermEquiv StubSet.

(* ---- totality: "inference terminates without error" ---- *)
Theorem infer_total :
  forall (k : nat) (vs : list value), forallb wf_valueb vs = true -> exists t, infer k vs = Some t.
Proof. exact InferTotal.infer_total. Qed.
Print Assumptions infer_total.

Theorem shrink_top_total :
  forall (k : nat) (ts : list ty), Forall TypesFacts.wf_ty ts -> exists t, shrink_top k ts = Some t.
Proof. exact InferTotal.shrink_top_total. Qed.
Print Assumptions shrink_top_total.

Theorem get_type_total :
  forall (k : nat) (v : value), wf_valueb v = true -> exists t, get_type k v = Some t.
Proof. exact InferTotal.get_type_total. Qed.
Print Assumptions get_type_total.

(* make_typed_dict's disjointness assert never fires on the maps the merge builds *)
Theorem merge_never_asserts :
  forall ts : list ty, Forall TypesFacts.wf_ty ts ->
    keys_disjoint (fst (td_merge_maps ts)) (snd (td_merge_maps ts)) = true.
Proof. exact InferTotal.merge_disjoint. Qed.
Print Assumptions merge_never_asserts.

(* ---- soundness ----
   for EVERY class hierarchy table h, EVERY limit k, EVERY finite collection of (well-formed: dict keys distinct)
   values: every observed value is a member of the inferred type - already under the TIGHT reading, in which `Any`
   (which inference only produces for the elements of an empty container) admits nothing ... *)
Theorem infer_sound :
  forall (h : hierarchy) (k : nat) (vs : list value) (t : ty) (v : value),
    forallb wf_valueb vs = true -> infer k vs = Some t -> In v vs ->
    member false (subclass h) v t = true.
Proof. exact infer_sound_hier. Qed.
Print Assumptions infer_sound.

(* ... and hence under the annotation reading, in which Any admits everything. *)
Theorem infer_sound_annotation :
  forall (h : hierarchy) (k : nat) (vs : list value) (t : ty) (v : value),
    forallb wf_valueb vs = true -> infer k vs = Some t -> In v vs ->
    member true (subclass h) v t = true.
Proof. exact infer_sound_hier_anno. Qed.
Print Assumptions infer_sound_annotation.

(* The inferred type is well formed (TypedDict field names pairwise distinct, required and
   optional disjoint) — the invariant make_typed_dict's assert needs. *)
Theorem infer_well_formed :
  forall (k : nat) (vs : list value) (t : ty),
    forallb wf_valueb vs = true -> infer k vs = Some t -> TypesFacts.wf_ty t.
Proof. exact infer_wf_closed. Qed.
Print Assumptions infer_well_formed.

(* ---- order: the merged type does not depend on the order in which the values (types) were seen ----
   up to `equivb` (union members as sets, TypedDict fields as maps) and hence in what it admits; TypedDicts anywhere *)
Theorem merge_order_invariant :
  forall k ts ts', Forall TypesFacts.wf_ty ts -> Permutation.Permutation ts ts' ->
    opt_equivb (shrink_top k ts) (shrink_top k ts') = true.
Proof. exact merge_perm_equivb. Qed.
Print Assumptions merge_order_invariant.

Theorem infer_order_invariant :
  forall anyb sub k vs vs' t t', forallb wf_valueb vs = true -> Permutation.Permutation vs vs' ->
    infer k vs = Some t -> infer k vs' = Some t' -> forall v, member anyb sub v t = member anyb sub v t'.
Proof. intros anyb sub k vs vs' t t'. exact (infer_perm_members anyb sub k vs vs' t t'). Qed.
Print Assumptions infer_order_invariant.

(* ---- multiplicity: seeing a value again does not change what the merged type admits, provided its type has no
        TypedDict below a union (class kf_td_under_union: such types hash by identity in Python and never
        deduplicate); inside that class the statement is refuted (Refuted/C04.v) ---- *)
Theorem infer_multiplicity_invariant :
  forall anyb sub k vs x tx t t', forallb wf_valueb vs = true -> In x vs ->
    get_type k x = Some tx -> kf_td_under_union tx = false ->
    infer k vs = Some t -> infer k (x :: vs) = Some t' -> forall v, member anyb sub v t = member anyb sub v t'.
Proof. intros anyb sub k vs x tx t t'. exact (infer_dup_members anyb sub k vs x tx t t'). Qed.
Print Assumptions infer_multiplicity_invariant.

(* with the default limit 0 (no TypedDicts at all) the merged type depends only on the SET of values seen *)
Theorem infer0_depends_on_set_only :
  forall anyb sub vs vs' t t', forallb wf_valueb vs = true ->
    incl vs vs' -> incl vs' vs -> infer 0 vs = Some t -> infer 0 vs' = Some t' ->
    forall v, member anyb sub v t = member anyb sub v t'.
Proof. intros anyb sub vs vs' t t'. exact (infer0_set_members anyb sub vs vs' t t'). Qed.
Print Assumptions infer0_depends_on_set_only.

(* Python's == on type objects is the set-like equivalence exactly outside the class *)
Theorem py_eq_characterised :
  forall a b, TypesFacts.wf_ty a -> TypesFacts.wf_ty b ->
    (py_eqb a b = true <-> equivb a b = true /\ kf_td_under_union a = false /\ kf_td_under_union b = false).
Proof. exact py_eqb_char. Qed.
Print Assumptions py_eq_characterised.

(* Non-vacuity: a concrete heterogeneous collection meets the premises and infers a TypedDict
   with a required and an optional key. *)
Example ex_c04_nonvacuous :
  let vs := [VDict [(VStr "a", VAtom cInt 1); (VStr "b", VStr "x")];
             VDict [(VStr "a", VAtom cNone 0)]] in
  forallb wf_valueb vs = true /\
  infer 2 vs = Some (TTypedDict [("a"%string, TUnion [TCls cInt; TCls cNone])] [("b"%string, TCls cStr)]).
Proof. vm_compute. split; reflexivity. Qed.
