"""C12 — stubs are valid Python and mirror the traced functions' real signatures."""
import asyncio
import importlib
import inspect
import json
import os
import random
import sys
import unittest.mock

from harness import common
from harness import stubrender_gen as gen
from harness import stubrender_reify as rf
from harness.common import coq_bool, coq_list, coq_str

COQ_TARGETS = ["Check/StubRenderCases.vo"]
TRUSTED_BASE = [
    "Python's tokenizer ignores newlines and indentation inside parentheses; `class <name>:` needs a single identifier "
    "(language reference; exercised on every case through tokenize and ast.parse)",
    "Python's ast, tokenize, inspect.signature",
    "annotation texts are opaque atoms that are valid expressions (C11's business); strip_modules is applied per annotation",
    "harness/stubrender_gen.py, harness/stubrender_reify.py (generators, reifiers)",
]
ASSUMPTIONS = [
    "qualname components and module names are non-empty ASCII identifiers (sorting by code point = Coq's String.leb)",
    "FunctionDefinition.signature is what inspect.signature gives for a live function: kinds never decrease, at most one "
    "*args and one **kwargs, no non-default positional after a default (valid_signature)",
    "one module's FunctionDefinitions have pairwise distinct qualnames (one per traced function object)",
]
PARTIAL = ["the import block and TypedDict class stubs of a module stub are C11's; here the function/class layout only"]

HEADER = "From Coq Require Import List String.\nFrom MT Require Import StubRenderCases.\nImport ListNotations.\n"

TRACE_TYPES = ["int", "str", "List[int]", "Optional[str]", "Dict[str, int]", "NoneType", "Outer"]
STRATEGIES = ["REPLICATE", "IGNORE", "OMIT"]


def type_by_name(name, module=None):
    from typing import Any, Dict, List, Optional, Tuple, Union
    table = {"int": int, "str": str, "List[int]": List[int], "Optional[str]": Optional[str], "Optional[int]": Optional[int],
             "Dict[str, int]": Dict[str, int], "NoneType": type(None), "Dict[str, Any]": Dict[str, Any],
             "Tuple[int, ...]": Tuple[int, ...], "Union[int, str]": Union[int, str]}
    if name in ("Decimal", "Fraction", "UUID", "List[Fraction]"):
        import decimal, fractions, uuid
        return {"Decimal": decimal.Decimal, "Fraction": fractions.Fraction, "UUID": uuid.UUID,
                "List[Fraction]": List[fractions.Fraction]}[name]
    if name == "LongDict":
        t = int
        for _ in range(12):
            t = Dict[str, t]
        return t
    if name == "Outer":
        return getattr(module, "Outer", int) if module is not None else int
    return table[name]


# --------------------------------------------------------------------------------------------------
# scenarios (JSON-serialisable, so that a failing one can be replayed)
# --------------------------------------------------------------------------------------------------
def resolve(mod, path, name):
    obj = mod
    for c in path:
        obj = inspect.getattr_static(obj, c)
    raw = obj.__dict__[name] if path else getattr(mod, name)
    if isinstance(raw, (classmethod, staticmethod)):
        return inspect.unwrap(raw.__func__)
    if isinstance(raw, property):
        return raw.fget
    return inspect.unwrap(raw)      # the function the source defines, below any functools.wraps decorators


class Fixtures:
    """writes and imports fixture modules under ctx.work"""

    def __init__(self, work):
        self.work = work
        self.loaded = {}
        if work not in sys.path:
            sys.path.insert(0, work)

    def load(self, name, source):
        if name in self.loaded:
            return self.loaded[name]
        with open(os.path.join(self.work, name + ".py"), "w") as f:
            f.write(source)
        importlib.invalidate_caches()
        mod = importlib.import_module(name)
        self.loaded[name] = mod
        return mod

    def close(self):
        for name in self.loaded:
            sys.modules.pop(name, None)
        if self.work in sys.path:
            sys.path.remove(self.work)


def call_live(mod, fn):
    """really call a generated function (for the traced-for-real scenarios)"""
    path, name, kind = fn["path"], fn["name"], fn["gt_kind"]
    owner = mod
    for c in path:
        owner = getattr(owner, c)
    args, kwargs = [], {}
    params = fn["gt_params"]
    skip_first = kind in ("INSTANCE", "CLASS", "PROPERTY")
    for i, (pname, pkind, has_default, _a) in enumerate(params):
        if i == 0 and skip_first:
            continue
        if pkind in ("PO", "PK"):
            args.append(i)
        elif pkind == "VP":
            args += ["x", "y"]
        elif pkind == "KO":
            kwargs[pname] = [i]
        elif pkind == "VK":
            kwargs["zz_extra"] = 1
    if kind == "PROPERTY":
        return getattr(owner(), name)
    target = getattr(owner() if kind == "INSTANCE" else owner, name)
    res = target(*args, **kwargs)
    if fn["flavour"] == "coroutine":
        return asyncio.run(res)
    if fn["flavour"] == "generator":
        return list(res)
    if fn["flavour"] == "asyncgen":
        async def drain():
            return [x async for x in res]
        return asyncio.run(drain())
    return res


def updated_definition(func, traces, strategy, lost=None):
    """get_updated_definition, or - when it raises - a stand-in definition no live function mirrors plus the message
    (the CLI would produce no stub at all: the property predicate is false on that behaviour)"""
    from monkeytype.stubs import FunctionDefinition, FunctionKind, get_updated_definition
    if lost is not None:
        real, msg = lost
        sig = inspect.Signature([inspect.Parameter("no_definition_for_this_function", inspect.Parameter.POSITIONAL_OR_KEYWORD)])
        return FunctionDefinition(real.__module__, real.__qualname__, FunctionKind.MODULE, sig, False), msg
    try:
        return get_updated_definition(func, traces, 0, None, strategy), None
    except Exception as e:
        sig = inspect.Signature([inspect.Parameter("get_updated_definition_raised_" + type(e).__name__,
                                                   inspect.Parameter.POSITIONAL_OR_KEYWORD)])
        d = FunctionDefinition(func.__module__, func.__qualname__, FunctionKind.MODULE, sig, False)
        return d, (f"get_updated_definition({func.__qualname__}{inspect.signature(func)}, strategy={strategy.name}) "
                   f"raised {type(e).__name__}: {e}")


def defs_live(fx, sc):
    """scenario kind "live": fixture modules on disk, CallTrace objects per traced function -> FunctionDefinitions by
    /repo's get_updated_definition; returns (fcases as dicts, defs, stubs by /repo's build_module_stubs, notes)"""
    from monkeytype.stubs import (ExistingAnnotationStrategy, StubIndexBuilder, build_module_stubs,
                                  build_module_stubs_from_traces, get_updated_definition)
    from monkeytype.tracing import CallTrace, trace_calls
    if sc.get("real_calls"):
        sc["strategy"] = "REPLICATE"      # StubIndexBuilder.get_stubs uses the default strategy
    strategy = ExistingAnnotationStrategy[sc["strategy"]]
    mods = {m["name"]: fx.load(m["name"], m["source"]) for m in sc["modules"]}
    notes = []
    fcs, defs, all_traces = [], [], []
    by_func = {}
    for fn in sc["traced"]:
        mod = mods[fn["module"]]
        func = resolve(mod, fn["path"], fn["name"])
        by_func[func] = fn
    if sc.get("real_calls"):
        work = fx.work
        logger = StubIndexBuilder("|".join(mods), 0)
        with trace_calls(logger, 0, code_filter=lambda code: code.co_filename.startswith(work)):
            for fn in sc["traced"]:
                try:
                    call_live(mods[fn["module"]], fn)
                except Exception as e:   # a call we could not make is simply not traced
                    notes.append(f"call of {fn['module']}.{'.'.join(fn['path'] + [fn['name']])} raised {type(e).__name__}")
        import threading
        late = sc.get("after_block") or []

        def run_late():
            for fn in late:
                try:
                    call_live(mods[fn["module"]], fn)
                except Exception:
                    pass
        th = threading.Thread(target=run_late)
        th.start()
        th.join()
        expected_quals = {(f.__module__, f.__qualname__) for f in by_func}
        index = {f: ts for f, ts in logger.index.items() if f in by_func}
        # everything else the logger holds appears in the stub without having been traced inside the block
        for f, ts in logger.index.items():
            if f not in by_func and (f.__module__, f.__qualname__) not in expected_quals:
                d, raised = updated_definition(f, ts, strategy)
                if raised is None:
                    defs.append(d)
                notes.append(f"UNTRACED-IN-STUB: {f.__module__}.{f.__qualname__} was never called inside the trace_calls block "
                             f"(it ran in a thread started after the block ended) but the logger holds a trace of it")
        try:
            ref_stubs = logger.get_stubs()
        except Exception as e:
            ref_stubs = None
            ref_error = f"{type(e).__name__}: {e}"
    else:
        index = {}
        for func, fn in by_func.items():
            mod = mods[fn["module"]]
            ts = set()
            for tr in fn["traces"]:
                ts.add(CallTrace(func, {k: type_by_name(v, mod) for k, v in tr["args"].items()},
                                 type_by_name(tr["ret"], mod) if tr["ret"] else None,
                                 type_by_name(tr["yield"], mod) if tr["yield"] else None))
            index[func] = ts
            all_traces += list(ts)
        try:
            ref_stubs = build_module_stubs_from_traces(all_traces, 0, strategy)
        except Exception as e:
            ref_stubs = None
            ref_error = f"{type(e).__name__}: {e}"
    any_raised = False
    for func, traces in index.items():
        fn = by_func[func]
        d, raised = updated_definition(func, traces, strategy)
        if raised is None:
            defs.append(d)
        any_raised = any_raised or raised is not None
        sig = inspect.signature(func)
        gt_params = rf.gt_params_of_signature(sig)
        if [tuple(x) for x in fn["gt_params"]] != gt_params:
            raise RuntimeError(f"generator and inspect.signature disagree on {func.__qualname__}: {fn['gt_params']} vs {gt_params}")
        traced_names = sorted({k for t in traces for k in t.arg_types})
        fcs.append({"qual": fn["path"] + [fn["name"]], "kind": fn["gt_kind"], "async": fn["flavour"] == "coroutine",
                    "gt_params": gt_params, "updated": True, "traced": traced_names, "strategy": sc["strategy"],
                    "defn": d, "flavour": fn["flavour"], "raised": raised, "wraps": fn.get("wraps", 0)})
    stubs = build_module_stubs(defs)
    if ref_stubs is None:
        if not any_raised:
            notes.append("MISMATCH: build_module_stubs_from_traces raised " + ref_error + " where get_updated_definition did not")
        ref_stubs = stubs
    # build_module_stubs_from_traces / StubIndexBuilder.get_stubs take the same path with another order of definitions
    def safe_items(stub):
        try:
            return rf.items_of_text(stub.render())[0]
        except Exception as e:      # reported through the module case (cases_of_scenario), not here
            return f"?render raised {type(e).__name__}"

    for m, st in stubs.items():
        # compared through ast (names, kinds, defaults, decorators, classes): the order of Union members inside an
        # annotation depends on set iteration order (C14's subject), nothing else may differ
        if m not in ref_stubs or safe_items(ref_stubs[m]) != safe_items(st):
            notes.append(f"MISMATCH: build_module_stubs_from_traces renders module {m} differently from build_module_stubs over the same definitions")
    if set(ref_stubs) != set(stubs):
        notes.append("MISMATCH: build_module_stubs_from_traces returns other modules than build_module_stubs")
    return fcs, defs, stubs, notes


def defs_store(mod, modname, fns, strategy_name):
    """the CLI's path: every trace goes through CallTraceRow.from_trace / to_trace (so the function is looked up again by
    module and qualname), then build_module_stubs_from_traces.  Ground truth = the functions `mod` contains NOW, found by
    the harness's own getattr_static walk."""
    from monkeytype.encoding import CallTraceRow
    from monkeytype.stubs import (ExistingAnnotationStrategy, build_module_stubs, build_module_stubs_from_traces,
                                  get_updated_definition)
    from monkeytype.tracing import CallTrace
    strategy = ExistingAnnotationStrategy[strategy_name]
    notes, rt_traces, by_qual, undecodable = [], [], {}, {}
    for fn in fns:
        func = resolve(mod, fn["path"], fn["name"])
        by_qual[".".join(fn["path"] + [fn["name"]])] = (fn, func)
        for tr in fn["traces"]:
            t = CallTrace(func, {k: type_by_name(v, mod) for k, v in tr["args"].items()},
                          type_by_name(tr["ret"], mod) if tr["ret"] else None,
                          type_by_name(tr["yield"], mod) if tr["yield"] else None)
            try:
                rt_traces.append(CallTraceRow.from_trace(t).to_trace())
            except Exception as e:
                # the CLI logs "Failed decoding trace" and goes on: the function is then simply missing from the stub
                undecodable.setdefault(".".join(fn["path"] + [fn["name"]]), f"{type(e).__name__}: {e}")
    index = {}
    for t in rt_traces:
        index.setdefault(t.func, set()).add(t)
    fcs, defs = [], []
    any_raised = False
    decoded = {f.__qualname__ for f in index}
    items = [(func, traces, None) for func, traces in index.items()]
    items += [(by_qual[q][1], set(), msg) for q, msg in undecodable.items() if q not in decoded]
    for func, traces, lost in items:
        fn, real = by_qual[func.__qualname__]
        if lost is None:
            d, raised = updated_definition(func, traces, strategy)
        else:
            d, raised = updated_definition(None, None, strategy, lost=(real, f"the stored trace of {modname}.{real.__qualname__} "
                                           f"cannot be decoded ({lost}); the CLI skips the row, the function gets no stub"))
        if raised is None:
            defs.append(d)
        any_raised = any_raised or raised is not None
        gt_params = rf.gt_params_of_signature(inspect.signature(real))
        if [tuple(x) for x in fn["gt_params"]] != gt_params:
            raise RuntimeError(f"generator and inspect.signature disagree on {real.__qualname__}")
        fcs.append({"qual": fn["path"] + [fn["name"]], "kind": fn["gt_kind"], "async": fn["flavour"] == "coroutine",
                    "gt_params": gt_params, "updated": True, "traced": sorted({k for t in traces for k in t.arg_types}),
                    "strategy": strategy_name, "defn": d, "flavour": fn["flavour"], "raised": raised, "wraps": fn.get("wraps", 0)})
    stubs = build_module_stubs(defs)
    try:
        ref_stubs = build_module_stubs_from_traces(rt_traces, 0, strategy)
    except Exception as e:
        if not any_raised:
            notes.append(f"MISMATCH: build_module_stubs_from_traces raised {type(e).__name__}: {e} where get_updated_definition did not")
        ref_stubs = stubs

    def safe_items(stub):
        try:
            return rf.items_of_text(stub.render())[0]
        except Exception as e:
            return f"?render raised {type(e).__name__}"

    for m, st in stubs.items():
        if m not in ref_stubs or safe_items(ref_stubs[m]) != safe_items(st):
            notes.append(f"MISMATCH: build_module_stubs_from_traces renders module {m} differently from build_module_stubs over the same definitions")
    return fcs, defs, stubs, ref_stubs, notes


def cases_of_history(fx, sc):
    """version 1 imported and stubbed, the file rewritten with version 2, importlib.reload, stubbed again — one process"""
    name = sc["module"]
    out = []
    path = os.path.join(fx.work, name + ".py")
    mod = fx.load(name, sc["v1"]["source"])
    fcs, _defs, stubs, _ref, notes = defs_store(mod, name, sc["v1"]["traced"], sc["strategy"])
    for c in module_cases(fcs, stubs, sc, notes):
        c["history_version"] = 1
        out.append(c)
    with open(path, "w") as f:
        f.write(sc["v2"]["source"])
    importlib.invalidate_caches()
    mod = importlib.reload(mod)
    fx.loaded[name] = mod
    fcs, _defs, stubs, _ref, notes = defs_store(mod, name, sc["v2"]["traced"], sc["strategy"])
    for c in module_cases(fcs, stubs, sc, notes):
        c["history_version"] = 2
        out.append(c)
    return out


def fresh_parse_terms(work, scs):
    """what a process that never saw version 1 shows for version 2 of each history module (one subprocess for all)"""
    import subprocess
    entries = [{"module": sc["module"], "source": sc["v2"]["source"], "traced": sc["v2"]["traced"],
                "strategy": sc["strategy"]} for sc in scs]
    if not entries:
        return {}
    pin, pout = os.path.join(work, "fresh_in.json"), os.path.join(work, "fresh_out.json")
    json.dump(entries, open(pin, "w"))
    p = subprocess.run([common.PY, "-m", "harness.stubrender_fresh", pin, pout], env=common.sub_env(), cwd=common.VERIF,
                       capture_output=True, text=True, timeout=600)
    if p.returncode != 0 or not os.path.exists(pout):
        raise RuntimeError("fresh-process side of the history stream failed: " + p.stderr[-800:])
    return json.load(open(pout))


def defs_direct(sc):
    """scenario kind "direct": FunctionDefinition objects built by hand around inspect.Signature objects"""
    from monkeytype.stubs import FunctionDefinition, FunctionKind, build_module_stubs
    fcs, defs = [], []
    for fn in sc["defs"]:
        params = []
        for p in fn["params"]:
            default = {"empty": inspect.Parameter.empty, "None": None, "3": 3, "x": "x", "ANY": unittest.mock.ANY}[p["default"]]
            anno = type_by_name(p["anno"]) if p["anno"] else inspect.Parameter.empty
            params.append(inspect.Parameter(p["name"], gen.PK_[p["kind"]], default=default, annotation=anno))
        ret = type_by_name(fn["ret"]) if fn["ret"] else inspect.Signature.empty
        sig = inspect.Signature(params, return_annotation=ret, __validate_parameters__=False)
        d = FunctionDefinition(fn["module"], fn["qualname"], FunctionKind[fn["kind"]], sig, fn["async"])
        defs.append(d)
        fcs.append({"qual": fn["qualname"].split("."), "kind": fn["kind"], "async": fn["async"],
                    "gt_params": rf.gt_params_of_signature(sig), "updated": False, "traced": [], "strategy": "REPLICATE",
                    "defn": d, "flavour": "direct"})
    return fcs, defs, build_module_stubs(defs), []


def body_text(stub, text):
    """ModuleStub.render() without its import block (C11's)"""
    if stub.imports_stub.imports:
        head = stub.imports_stub.render()
        if text == head:
            return ""
        if text.startswith(head + "\n\n\n"):
            return text[len(head) + 3:]
        return "?import-block-not-a-prefix\n" + text
    return text


def coq_text(s):
    """like coq_str but newlines stay newlines (a Coq string literal may span lines)"""
    return "\n".join(coq_str(part)[:-len("%string")][1:-1] for part in s.split("\n")).join(['"', '"%string'])


def coq_fcase(fc):
    return "(FCase %s %s %s %s %s %s %s %s)" % (
        coq_list(coq_str(c) for c in fc["qual"]), rf.FKIND[fc["kind"]], coq_bool(fc["async"]),
        coq_list(rf.coq_pentry(*e) for e in fc["gt_params"]), coq_bool(fc["updated"]),
        coq_list(coq_str(n) for n in fc["traced"]), fc["strategy"], rf.coq_fdef(fc["defn"]))


def cases_of_scenario(fx, sc):
    """-> list of dict(term, info...) — one mcase per module of the returned stubs"""
    if sc["kind"] == "history":
        return cases_of_history(fx, sc)
    if sc["kind"] == "live" and sc.get("store") and len(sc["modules"]) == 1:
        m = sc["modules"][0]
        fcs, defs, stubs, _ref, notes = defs_store(fx.load(m["name"], m["source"]), m["name"], sc["traced"], sc["strategy"])
    elif sc["kind"] == "live":
        fcs, defs, stubs, notes = defs_live(fx, sc)
    else:
        fcs, defs, stubs, notes = defs_direct(sc)
    return module_cases(fcs, stubs, sc, notes)


def module_cases(fcs, stubs, sc, notes):
    all_term = coq_list(coq_fcase(fc) for fc in fcs)
    out = []
    class _NoStub:
        def render(self):
            raise RuntimeError("no stub was built for this module (every definition raised)")
    todo = list(stubs.items())
    for fc in fcs:
        m = fc["defn"].module
        if m not in stubs and m not in [x for x, _ in todo]:
            todo.append((m, _NoStub()))
    for modname, stub in todo:
        try:
            full = stub.render()
        except Exception as e:
            # no stub at all for this module: the property predicate is false on the implementation's own behaviour
            full = None
            text = f"?render raised {type(e).__name__}: {e}"
            parse_term, parse_plain, err = "None", None, f"ModuleStub.render() raised {type(e).__name__}: {e}"
            toks = [f"(TKw {coq_str('?render-raised')})"]
            tlines = []
        if full is not None:
            text = body_text(stub, full)
            parse_term, parse_plain, err = rf.items_of_text(full)
            toks = rf.tokens_of_text(text)
            tlines = rf.lines_of_text(full)
        else:
            full = text
        term = "(MCase %s %s %s %s %s %s %s)" % (
            coq_str(modname), all_term, coq_list(coq_str(m) for m in stubs.keys()),
            coq_text(text), coq_list(toks), parse_term, coq_list(tlines))
        mine = [fc for fc in fcs if fc["defn"].module == modname]
        out.append({"term": term, "scenario": sc, "module": modname, "text": full, "syntax_error": err,
                    "parsed": parse_plain, "funcs": mine, "notes": notes, "parse_term": parse_term})
    if not todo:
        out.append({"term": None, "scenario": sc, "module": None, "text": "", "syntax_error": None, "parsed": [],
                    "funcs": [], "notes": notes})
    return out


# --------------------------------------------------------------------------------------------------
# scenario generation
# --------------------------------------------------------------------------------------------------
def fn_record(modname, spec, rnd):
    gt_params = [(p.name, p.kind, p.default is not None, p.anno is not None) for p in spec.params]   # default: None|"None"|"other"|"ANY"
    traces = []
    for _ in range(rnd.choice([1, 1, 2])):
        force = getattr(spec, "force", None) or {}
        has_receiver = spec.fkind in ("INSTANCE", "CLASS", "PROPERTY")
        args = {}
        for i, p in enumerate(spec.params):
            if i == 0 and has_receiver:
                args[p.name] = "Outer"            # the tracer records the receiver's type too
            elif p.name in ("self", "cls"):
                args[p.name] = rnd.choice(TRACE_TYPES)   # an ordinary parameter that only looks like a receiver
            elif p.name in force or rnd.random() < 0.85:
                args[p.name] = force.get(p.name) or rnd.choice(TRACE_TYPES)
        is_gen = spec.flavour in ("generator", "asyncgen")
        traces.append({"args": args, "ret": force.get("return") or rnd.choice([None, "int", "NoneType"]),
                       "yield": "int" if is_gen else None})
    return {"module": modname, "path": spec.path, "name": spec.name, "gt_kind": spec.fkind, "flavour": spec.flavour,
            "gt_params": gt_params, "traces": traces, "wraps": getattr(spec, "wraps", 0), "deco": getattr(spec, "deco", "_deco")}


def nested(fn):
    return len(fn["path"]) >= 2


def live_scenarios(rnd, tier, tag):
    n_mod = 20 if tier == "quick" else 150
    subsets = gen.all_kind_subsets()
    scs = []
    prev = None
    for i in range(n_mod):
        modname = f"c12fx_{tag}_{i}"
        chosen = [subsets[(i * 11 + j) % len(subsets)] for j in range(11)]
        specs = gen.gen_module_specs(rnd, chosen, 3, modname=modname)
        source = gen.module_source(specs)
        fns = [fn_record(modname, s, rnd) for s in specs]
        m = {"name": modname, "source": source}
        picks = [fns, [f for f in fns if not nested(f)]]
        for _ in range(2):
            sub = [f for f in fns if rnd.random() < 0.5]
            picks.append(sub)
            if any(nested(f) for f in sub):
                picks.append([f for f in sub if not nested(f)])
        nest = [f for f in fns if nested(f)]
        if nest:
            picks.append([rnd.choice(nest)])
        picks.append([rnd.choice(fns)])
        meta = [f for f in fns if f["path"] and f["path"][-1] == "Meta"]
        if meta:
            picks.append(meta)
            picks.append([f for f in meta if f["name"] == "describe"])
        for k, sub in enumerate(picks):
            if k == 1 and i % 3 == 0:
                # really traced: the tracer also records the hand-written wrappers themselves (local functions, which
                # StubIndexBuilder cannot look up again); those shapes belong to the store-path scenarios
                sub = [f for f in sub if f.get("deco") != "_plain_deco"]
            if not sub:
                continue
            sc = {"kind": "live", "modules": [m], "traced": sub, "strategy": rnd.choice(STRATEGIES),
                  "real_calls": k == 1 and i % 3 == 0,
                  "after_block": [f for f in fns if f not in sub and not f.get("wraps") and f["flavour"] == "plain"][:3],
                  # as the CLI does: traces stored, looked up again by module and qualname
                  "store": k in (0, 2) or (k == 1 and i % 3 == 1)}
            scs.append(sc)
        if prev is not None and i % 4 == 0:      # traces of two modules in one call
            pm, pf = prev
            sub = [f for f in pf + fns if not nested(f) and rnd.random() < 0.6]
            rnd.shuffle(sub)
            if sub:
                scs.append({"kind": "live", "modules": [pm, m], "traced": sub, "strategy": rnd.choice(STRATEGIES),
                            "real_calls": False})
        prev = (m, fns)
    return scs


def history_scenarios(rnd, tier, tag):
    scs = []
    for i in range(8 if tier == "quick" else 80):
        name = f"c12hist_{tag}_{i}"
        v1, v2 = gen.history_specs(rnd)
        scs.append({"kind": "history", "module": name, "strategy": rnd.choice(STRATEGIES),
                    "v1": {"source": gen.module_source(v1), "traced": [fn_record(name, s, rnd) for s in v1]},
                    "v2": {"source": gen.module_source(v2), "traced": [fn_record(name, s, rnd) for s in v2]}})
    return scs


def sig_to_params(sig):
    out = []
    for p in sig.parameters.values():
        default = ("empty" if p.default is inspect.Parameter.empty else "ANY" if p.default is unittest.mock.ANY
                   else {None: "None", 3: "3", "x": "x"}[p.default])
        anno = None if p.annotation is inspect.Parameter.empty else anno_name(p.annotation)
        out.append({"name": p.name, "kind": rf.KIND[p.kind], "default": default, "anno": anno})
    return out


def anno_name(t):
    from typing import Any, Dict, List, Optional, Tuple, Union
    for name in ["int", "str", "List[int]", "Optional[int]", "Dict[str, Any]", "Tuple[int, ...]", "Union[int, str]", "NoneType"]:
        if type_by_name(name) == t:
            return name
    raise KeyError(t)


def direct_scenarios(rnd, tier):
    seqs = gen.valid_kind_sequences(4)
    sigs = []           # (sig, valid)
    reps = 1 if tier == "quick" else 6
    for seq in seqs:
        for _ in range(reps):
            sigs.append((gen.make_signature(rnd, seq, long_names=rnd.random() < 0.2), True))
    for _ in range(90 if tier == "quick" else 1200):
        n = rnd.randrange(5, 9)
        seq = sorted((rnd.choice(gen.KINDS) for _ in range(n)), key=gen.KINDS.index)
        while seq.count("VP") > 1:
            seq.remove("VP")
        while seq.count("VK") > 1:
            seq.remove("VK")
        sigs.append((gen.make_signature(rnd, seq, long_names=rnd.random() < 0.6), True))
    bad = []
    for _ in range(60 if tier == "quick" else 300):
        n = rnd.randrange(1, 6)
        seq = [rnd.choice(gen.KINDS) for _ in range(n)]
        bad.append((gen.make_signature(rnd, seq, validate=False, defaults_mode="any"), False))
    scs = []
    # the wrap with an empty (or one-entry) parameter list: very long name / very long return annotation
    for i in range(6 if tier == "quick" else 40):
        defs = []
        for j, (nparams, how) in enumerate([(0, "name"), (0, "ret"), (1, "name"), (1, "ret")]):
            place = rnd.choice(["", "K."])
            kind = "MODULE" if place == "" else rnd.choice(["STATIC", "INSTANCE", "CLASS", "PROPERTY"])
            name = gen.very_long_name(rnd, "w", j) if how == "name" else f"w{j}"
            pk = rnd.choice(["PO", "PK", "VP", "KO", "VK"])
            params = [{"name": "a", "kind": pk, "default": "empty", "anno": rnd.choice([None, "int"])}] if nparams else []
            defs.append({"module": "sigmod", "qualname": place + name, "kind": kind, "async": rnd.random() < 0.3,
                         "params": params, "ret": "LongDict" if how == "ret" else rnd.choice([None, "int"])})
        scs.append({"kind": "direct", "defs": defs})
    for pool, per in ((sigs, 6), (bad, 3)):
        for i in range(0, len(pool), per):
            defs = []
            with_nested = rnd.random() < 0.12
            for j, (sig, _valid) in enumerate(pool[i:i + per]):
                place = rnd.choice(["", "", "K.", "K.", "A.", "K.L."] if with_nested else ["", "", "K.", "K.", "A."])
                kind = "MODULE" if place == "" else rnd.choice(["CLASS", "INSTANCE", "STATIC", "PROPERTY", "DJANGO_CACHED_PROPERTY", "INSTANCE"])
                name = gen.mk_name(rnd, "f", j, rnd.random() < 0.2)
                defs.append({"module": "sigmod" if rnd.random() < 0.9 else "sigmod.other", "qualname": place + name, "kind": kind,
                             "async": rnd.random() < 0.3, "params": sig_to_params(sig),
                             "ret": None if sig.return_annotation is inspect.Signature.empty else anno_name(sig.return_annotation)})
            scs.append({"kind": "direct", "defs": defs})
    return scs


def grammar_cases(rnd, tier):
    import itertools
    seqs = []
    for n in range(0, 4):
        seqs += [list(s) for s in itertools.product(gen.GRAMMAR_ALPHABET[:9], repeat=n)]
    for _ in range(700 if tier == "quick" else 5000):
        seqs.append([rnd.choice(gen.GRAMMAR_ALPHABET) for _ in range(rnd.randrange(3, 9))])
    terms, infos = [], []
    for k, s in enumerate(seqs):
        text, toks = gen.grammar_case(s, layout_newlines=(k % 3 == 0))
        py = rf.params_of_def_text("def f" + text + ": ...")
        terms.append(f"(GCase {coq_list(toks)} {py})")
        infos.append({"symbols": s, "text": text, "python": py})
    return terms, infos


# --------------------------------------------------------------------------------------------------
def describe_failure(c):
    for n in c.get("notes", []):
        if n.startswith("UNTRACED-IN-STUB") and f": {c['module']}." in n:
            return f"stub of {c['module']}: " + n[len("UNTRACED-IN-STUB: "):]
    for fc in c["funcs"]:
        if fc.get("raised"):
            return f"stub of {c['module']}: {fc['raised']}"
    for fc in c["funcs"]:
        # the FunctionDefinition itself (before any rendering): a method's receiver must not pick up a traced type
        ps = list(fc["defn"].signature.parameters.values())
        if not fc.get("raised") and fc["defn"].is_async != fc["async"]:
            return (f"stub of {c['module']}: {'.'.join(fc['qual'])} is {'a' if fc['async'] else 'not a'} coroutine function "
                    f"(flavour {fc['flavour']}, {fc.get('wraps', 0)} functools.wraps decorators) but its FunctionDefinition "
                    f"has is_async={fc['defn'].is_async}: the stub says `{'async ' if fc['defn'].is_async else ''}def`")
        if not fc.get("raised") and fc["defn"].kind.name != fc["kind"]:
            return (f"stub of {c['module']}: {'.'.join(fc['qual'])} is written as {fc['kind']} in the source but its "
                    f"FunctionDefinition has kind {fc['defn'].kind.name}")
        if fc["kind"] in ("CLASS", "INSTANCE", "PROPERTY", "DJANGO_CACHED_PROPERTY") and ps and fc["gt_params"] \
                and ps[0].annotation is not inspect.Parameter.empty and not fc["gt_params"][0][3]:
            return (f"stub of {c['module']}: the receiver {ps[0].name!r} of {fc['kind']} {'.'.join(fc['qual'])}"
                    f"{inspect.signature(lambda: 0).replace(parameters=[p.replace(annotation=inspect.Parameter.empty, default=inspect.Parameter.empty) for p in ps])} "
                    f"is annotated `{ps[0].name}: {getattr(ps[0].annotation, '__name__', ps[0].annotation)}` (strategy {fc['strategy']}, "
                    f"traced {fc['traced']}) although the source leaves it unannotated")
    quals = [".".join(fc["qual"]) for fc in c["funcs"]]
    head = f"ModuleStub.render() for traces of {c['module']}.{{{', '.join(quals[:6])}{', ...' if len(quals) > 6 else ''}}}"
    if c["syntax_error"] and c["syntax_error"].startswith("ModuleStub.render() raised"):
        suspects = [".".join(fc["qual"]) + str(fc["defn"].signature) for fc in c["funcs"]
                    if len(fc["gt_params"]) <= 1 and len(fc["qual"][-1]) + len(str(fc["defn"].signature)) > 100]
        return (f"{head}: {c['syntax_error']} - no stub for the module"
                + (f"; functions with at most one parameter that must wrap: {suspects[:3]}" if suspects else ""))
    if c["syntax_error"]:
        return f"{head} is not valid Python: {c['syntax_error']}"
    got = [(tuple(it["class"]), it["name"]) for it in (c["parsed"] or [])]
    for fc in c["funcs"]:
        key = (tuple(fc["qual"][:-1]), fc["qual"][-1])
        if got.count(key) != 1:
            return f"{head}: {'.'.join(fc['qual'])} appears {got.count(key)} times in its class (expected once)"
    by_key = {(tuple(it["class"]), it["name"]): it for it in (c["parsed"] or [])}
    for fc in c["funcs"]:
        it = by_key[(tuple(fc["qual"][:-1]), fc["qual"][-1])]
        q = ".".join(fc["qual"])
        want_dec = {"CLASS": ["classmethod"], "STATIC": ["staticmethod"], "PROPERTY": ["property"],
                    "DJANGO_CACHED_PROPERTY": ["cached_property"]}.get(fc["kind"], [])
        if it.get("decorators") != want_dec:
            return f"{head}: {q} ({fc['kind']}) is shown with decorators {it.get('decorators')}, expected {want_dec}"
        if it.get("async") != fc["async"]:
            return f"{head}: {q} is shown {'async' if it.get('async') else 'not async'} but the live function is {'a' if fc['async'] else 'not a'} coroutine function"
        shown = [tuple(e[:3]) for e in it.get("params", [])]
        live = [tuple(e[:3]) for e in fc["gt_params"]]
        if shown != live:
            return (f"{head}: parameters of {q} are shown as {shown} but inspect.signature of the live function gives {live} "
                    f"(name, kind, has default)")
        if fc["kind"] in ("CLASS", "INSTANCE", "PROPERTY", "DJANGO_CACHED_PROPERTY") and it.get("params") and fc["gt_params"] \
                and it["params"][0][3] and not fc["gt_params"][0][3]:
            return f"{head}: the receiver {it['params'][0][0]!r} of {q} is annotated in the stub but not in the source"
    return f"{head} does not mirror the live functions (kind / async / qualname of the FunctionDefinition)"


def evaluate(ctx, cases, name):
    terms = [c["term"] for c in cases]
    outs = common.run_coq_shards(ctx.work, name, HEADER, terms, "mcase", "bad verdict_kf 0 cases", shard_size=30)
    return common.parse_bad(outs)


def evaluate_h(ctx, hcases, scs, name):
    """second stubs of the history scenarios, each with what a fresh process shows (hcase, verdict_h)"""
    if not hcases:
        return []
    fresh = fresh_parse_terms(ctx.work, scs)
    for c in hcases:
        c["fresh_term"] = fresh.get(c["module"], "None")
    terms = [f"(HCase {c['term']} {c['fresh_term']})" for c in hcases]
    outs = common.run_coq_shards(ctx.work, name, HEADER, terms, "hcase", "bad verdict_h 0 cases", shard_size=30)
    return common.parse_bad(outs)


def describe_history(c):
    msg = (f"history: {c['module']} stubbed through the store path (CallTraceRow.from_trace -> to_trace -> "
           f"build_module_stubs_from_traces), its source rewritten (v1 -> v2, both in the replay file) and "
           f"importlib.reload()ed, stubbed again in the same process; the second stub: {describe_failure(c)}")
    if c.get("parse_term") != c.get("fresh_term"):
        msg += "; a fresh process that only ever saw v2 shows a different stub for the same traces"
    return msg


def run(ctx):
    rnd = random.Random(ctx.seed * 1000 + 12)
    fx = Fixtures(ctx.work)
    try:
        scs = live_scenarios(rnd, ctx.tier, ctx.seed) + direct_scenarios(rnd, ctx.tier)
        hscs = history_scenarios(rnd, ctx.tier, ctx.seed)
        scs += hscs
        cases, notes = [], []
        for sc in scs:
            for c in cases_of_scenario(fx, sc):
                notes += c["notes"]
                if c["term"] is not None:
                    cases.append(c)
        hcases = [c for c in cases if c.get("history_version") == 2]
        cases = [c for c in cases if c.get("history_version") != 2]
        bad = evaluate(ctx, cases, "c12")
        hbad = evaluate_h(ctx, hcases, hscs, "c12h")
        gterms, ginfos = grammar_cases(rnd, ctx.tier)
        gouts = common.run_coq_shards(ctx.work, "c12g", HEADER, gterms, "gcase", "bad verdict_g 0 cases")
        gbad = common.parse_bad(gouts)
    finally:
        fx.close()

    failures, mismatches = [], []
    for i, code in bad:
        c = cases[i]
        kf, v = code >= 10, code % 10
        rec = {"scenario": c["scenario"], "module": c["module"], "stub_text": c["text"][:4000], "verdict": v,
               "syntax_error": c["syntax_error"]}
        if v == 2:
            rec["what"] = describe_failure(c)
            if kf:
                rec["finding"] = "kf_nested_class"
            failures.append(rec)
        else:
            rec["what"] = ("harness produced a malformed case" if v == 3 else
                           "model and implementation disagree on text / tokens / parse / placement") + f" for module {c['module']}"
            mismatches.append(rec)
    for i, code in hbad:
        c = hcases[i]
        rec = {"scenario": c["scenario"], "module": c["module"], "stub_text": c["text"][:4000], "verdict": code,
               "syntax_error": c["syntax_error"]}
        if code == 2:
            rec["what"] = describe_history(c)
            failures.append(rec)
        else:
            rec["what"] = f"history: model and implementation disagree on the second stub of {c['module']}"
            mismatches.append(rec)
    for i, code in gbad:
        mismatches.append({"what": f"reparse and Python's parser disagree on the parameter list {ginfos[i]['text']!r}",
                           "grammar_case": ginfos[i]})
    for n in sorted(set(notes)):
        if n.startswith("MISMATCH"):
            mismatches.append({"what": n})
    # failures of the known class first need not hide others: order so that a non-finding failure is reported first
    failures.sort(key=lambda r: (1 if r.get("finding") else 0,
                                 len(r["scenario"].get("traced", r["scenario"].get("defs", r["scenario"].get("v2", {}).get("traced", []))))))
    cases = cases + hcases

    dist = {"scenarios_live": sum(1 for s in scs if s["kind"] == "live"),
            "scenarios_direct": sum(1 for s in scs if s["kind"] == "direct"),
            "real_calls_scenarios": sum(1 for s in scs if s.get("real_calls")),
            "scenarios_history": len(hscs), "history_second_stubs": len(hcases),
            "history_functions_changed": sum(1 for sc in hscs for a, b in zip(sc["v1"]["traced"], sc["v2"]["traced"])
                                             if (a["gt_kind"], a["flavour"], a["gt_params"]) != (b["gt_kind"], b["flavour"], b["gt_params"])),
            "module_cases": len(cases), "grammar_cases": len(gterms),
            "grammar_python_accepts": sum(1 for g in ginfos if g["python"] != "None"),
            "functions": 0, "wrapped_signatures": 0, "syntax_errors": sum(1 for c in cases if c["syntax_error"]),
            "cases_with_nested_class": 0, "uncallable_notes": sum(1 for n in notes if "raised" in n)}
    kinds, nparams, fkinds, flavours, strategies, subsets, depth = {}, {}, {}, {}, {}, set(), {}
    for c in cases:
        if any(len(fc["qual"]) >= 3 for fc in c["funcs"]):
            dist["cases_with_nested_class"] += 1
        dist["wrapped_signatures"] += c["text"].count("(\n")
        dist["wrapped_empty_parameter_lists"] = dist.get("wrapped_empty_parameter_lists", 0) + c["text"].count("(\n)") \
            + c["text"].count("(\n    )")
        for fc in c["funcs"]:
            dist["functions"] += 1
            ks = [e[1] for e in fc["gt_params"]]
            subsets.add(tuple(sorted(set(ks))))
            for k in ks:
                kinds[k] = kinds.get(k, 0) + 1
            nparams[len(ks)] = nparams.get(len(ks), 0) + 1
            fkinds[fc["kind"]] = fkinds.get(fc["kind"], 0) + 1
            flavours[fc["flavour"]] = flavours.get(fc["flavour"], 0) + 1
            strategies[fc["strategy"]] = strategies.get(fc["strategy"], 0) + 1
            depth[len(fc["qual"]) - 1] = depth.get(len(fc["qual"]) - 1, 0) + 1
    dist.update({"param_kinds": kinds, "n_params": {str(k): v for k, v in sorted(nparams.items())}, "function_kinds": fkinds,
                 "flavours": flavours, "strategies": strategies, "kind_subsets_covered": len(subsets),
                 "class_depth": {str(k): v for k, v in sorted(depth.items())},
                 "defaults_none": sum(1 for c in cases for fc in c["funcs"]
                                      for p in fc["defn"].signature.parameters.values() if p.default is None)})
    distinct = len({common.digest(c["term"]) for c in cases if any(fc["gt_params"] for fc in c["funcs"])})
    distinct += len({common.digest(t) for t, g in zip(gterms, ginfos) if len(g["symbols"]) >= 2})
    samples = [{"module": c["module"], "traced": [".".join(fc["qual"]) for fc in c["funcs"]][:8],
                "stub_text": c["text"][:600]} for c in cases[:3]]
    return {
        "evaluations": len(cases) + len(gterms), "distinct_nontrivial": distinct,
        "rule": "live fixture modules (every subset of the five parameter kinds, 0..8 parameters, None/other defaults, long "
                "names forcing the 120-column wrap, classes one and two levels deep, class/static methods, properties, "
                "coroutines, generators, async generators) with subsets of their functions traced (CallTrace objects, or real "
                "calls under trace_calls), through get_updated_definition and build_module_stubs; hand-built "
                "FunctionDefinitions over every kind sequence up to length 4, random ones up to 8 and an ill-formed stream "
                "(__validate_parameters__=False); parameter-list token sequences (exhaustive to length 3 over 9 entry "
                "shapes, random to 8) against ast.parse; histories: a module stubbed through the store path "
                "(CallTraceRow.from_trace/to_trace), rewritten with other kinds / flavours / parameter lists, reloaded "
                "and stubbed again in the same process, second stub against the functions as they are now and against "
                "a fresh process.  Non-trivial: a module case with a parameterised function / a "
                "grammar case of >= 2 entries; distinct by hash of the reified case",
        "samples": samples, "distribution": dist, "failures": failures, "mismatches": mismatches,
        "relation": "lines_text/lines_tokens/parse_module (render_module (build_module_stubs ds)) = real text/tokenize/ast.parse",
        "extra": {"notes": sorted(set(notes))[:10]},
    }


def replay(ctx, payload):
    sc = payload.get("scenario")
    if not sc:
        print(json.dumps(payload, indent=1)[:4000])
        return 0
    fx = Fixtures(ctx.work)
    try:
        cases = [c for c in cases_of_scenario(fx, sc) if c["term"] is not None]
        hcases = [c for c in cases if c.get("history_version") == 2]
        cases = [c for c in cases if c.get("history_version") != 2]
        bad = dict(evaluate(ctx, cases, "c12replay"))
        hbad = dict(evaluate_h(ctx, hcases, [sc], "c12replayh"))
        for j, c in enumerate(hcases):
            bad[len(cases) + j] = hbad.get(j, 0)
        cases = cases + hcases
    finally:
        fx.close()
    rc = 0
    for i, c in enumerate(cases):
        code = bad.get(i, 0)
        if c.get("history_version"):
            print(f"=== history, version {c['history_version']} of {c['module']}; source:")
            print(sc["v%d" % c["history_version"]]["source"])
            if c.get("history_version") == 2:
                print("--- a fresh process shows the same items: %s" % (c.get("parse_term") == c.get("fresh_term")))
        print(f"--- module {c['module']}: implementation output (ModuleStub.render()) ---")
        print(c["text"])
        print(f"--- ast.parse: {c['syntax_error'] or 'ok'}")
        print(f"--- verdict (model vs implementation, property predicate; evaluated in Coq): {code % 10}"
              f"{' [class kf_nested_class]' if code >= 10 else ''}")
        if code % 10 == 2:
            print("property predicate FALSE: " + (describe_history(c) if c.get("history_version") == 2 else describe_failure(c)))
            rc = 1
        elif code % 10 == 1:
            print("model and implementation DISAGREE")
            rc = 1
    return rc


CLAIM = {'note': 'Trusted: Coq kernel + vm_compute; Python tokenizer/ast/inspect; harness generators and reifiers; annotation '
         'texts are opaque (C11). The import block and TypedDict class stubs are not modelled here.',
 'ref': '4/C12',
 'technique': 'Coq proof (state-machine simulation, induction over signatures and definition lists) + vm_compute '
              'differential correspondence against ast.parse / tokenize / inspect.signature',
 'text': 'Coq theorems signature_roundtrip, wrap_irrelevant, decorator_matches_kind, placed_once, module_parses, '
         'receiver_never_annotated over all valid signatures and all definition lists outside kf_nested_class; '
         'nested_class_refuted for the finding; model tied to /repo on generated live modules, hand-built definitions '
         'and a grammar stream.'}
