(* Check/ApplyCases.v — verdict of the C15 correspondence: real `apply_stub_using_libcst` output
   (abstracted by the harness from Python's ast) against the property predicates and the model. *)
From Coq Require Import List Bool Arith String.
From MT Require Export Apply.
From MT Require Export Common.
Import ListNotations.
Open Scope list_scope.

Record acase := ACase {
  c_ow : bool;                      (* overwrite_existing_annotations *)
  c_conf : bool;                    (* confine_new_imports_in_type_checking_block *)
  c_stub : list stmt;
  c_src : list stmt;
  c_out : option (list stmt);       (* None: the real call raised (HandlerError) *)
  c_idem : bool;                    (* harness: applying the same stub to the output returned the same text *)
  c_parse : bool;                   (* harness: ast.parse accepted the output *)
  c_gen : bool                      (* the stub was rendered by the real stub machinery from traces of this source *)
}.

Definition stmts_eqb (a b : list stmt) : bool := if stmts_eq_dec a b then true else false.

Section V.
Variable c : acase.
Let e := mk_env (c_ow c) (c_stub c) (c_src c).
Let simp := e_simp e.
Definition out_of (c : acase) : list stmt := match c_out c with Some o => o | None => [] end.
Let res := core (c_src c) (out_of c).

Definition b_raised := match c_out c with None => true | Some _ => false end.
Definition b_erase := negb (stmts_eqb (erase (c_src c) (out_of c)) (map erase_stmt (c_src c))).
(* the position-wise predicates need the alignment that the erase check establishes *)
Definition b_respects := negb b_erase && negb (c_ow c) && negb (respectsb (c_src c) res).
Definition f_sd := completeb e (excl_known simp) (c_src c) res.
Definition f_s := completeb e excl_star (c_src c) res.
Definition f_d := completeb e (excl_dotted simp) (c_src c) res.
Definition b_other := negb b_erase && negb f_sd.
Definition b_star := negb b_erase && f_sd && negb f_d.
Definition b_dotted := negb b_erase && f_sd && negb f_s.
Definition b_parse := negb (c_parse c).
Definition b_idem := negb (c_idem c).
(* a generated stub must be applicable to the functions it was generated from *)
Definition b_unfit := c_gen c && negb (stub_fits (c_stub c) (c_src c)).
Definition model := if c_conf c then None else apply (c_ow c) (c_stub c) (c_src c).
Definition b_nomodel := match model with None => true | Some _ => false end.
Definition b_mismatch := match model, c_out c with Some m, Some o => negb (stmts_eqb m o) | _, _ => false end.

Definition pred_false : bool :=
  b_raised || (negb b_raised && (b_erase || b_respects || b_other || b_star || b_dotted || b_parse || b_idem || b_unfit)).
End V.

(* 0 ok; 1 model <> implementation, predicates hold; 2 a property predicate is false on the
   implementation's own output; 3 malformed case *)
Definition verdict (c : acase) : nat :=
  if pred_false c then 2 else if b_mismatch c then 1 else 0.

Definition bit (b : bool) (w : nat) : nat := if b then w else 0.
(* verdict + 4 * flags; flags: 1 star, 2 dotted, 4 other completeness, 8 erase, 16 respects, 32 parse,
   64 idempotence, 128 raised, 256 outside the model fragment (or confinement on), 512 model mismatch,
   1024 a generated stub function does not fit its own source function *)
Definition report (c : acase) : nat :=
  if b_raised c then 2 + 4 * 128 else
  verdict c + 4 * (bit (b_star c) 1 + bit (b_dotted c) 2 + bit (b_other c) 4 + bit (b_erase c) 8
                   + bit (b_respects c) 16 + bit (b_parse c) 32 + bit (b_idem c) 64
                   + bit (b_nomodel c) 256 + bit (b_mismatch c) 512 + bit (b_unfit c) 1024).
