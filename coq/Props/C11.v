(* C11 — rendered annotations denote the inferred type and stubs are self-contained.  (partial)
   Text-level model: Model/Render.v.  Token level: Proofs/RenderTok.v.  Imports: Proofs/RenderImports.v.
   Finding classes and their refutations: Check/RenderCases.v, Refuted/C11.v. *)
From MT Require Import Types Render RenderTok RenderImports RenderCases.
From MT Require Import Types TypesFacts Render RenderTok RenderImports RenderCases.
From MT Require Import RenderTextStr RenderTextPx RenderText RenderTextCor RenderTextTd.
From MT Require RenderTextEx RenderTextTdEx.

Open Scope string_scope.
Open Scope nat_scope.
Open Scope list_scope.

(* ---- the full statement (false of today's code and of the repaired code: Refuted/C11.v) ----
   for every class table, target module and list of traced function definitions that is well formed, every
   import line of the generated stub binds, and every annotation text of the stub evaluates, in the namespace
   the stub itself provides (import block, generated classes, the target module's classes, builtins), to a
   type corresponding to the traced one. *)
Definition wf_input (ct : ctable) (fds : list fdef) : bool :=
  wf_case (Build_rcase ct "" fds false "" true []).
Definition stub_ok (ct : ctable) (own : string) (fds : list fdef) : bool :=
  let c := Build_rcase ct own fds false "" true [] in
  annos_denote fds (model_imports_ok c) (model_annos c).
Definition C11_full : Prop :=
  forall ct own fds, wf_input ct fds = true -> stub_ok ct own fds = true.

(* the forward reference generated for any TypedDict resolves, through the generated class stubs, to that
   TypedDict (tested per case and by ex_td_stub_resolves below; not proved) *)
Definition td_stub_resolves_full : Prop :=
  forall ct ns hint req opt fuel,
    let '(t', cs) := rtd (TTypedDict req opt) hint in
    nodup_s (map cs_name cs) = true ->
    (forall s, In s cs -> lookup_s (cs_name s) ns = lookup_s (cs_name s) (cstubs_ns ct cs)) ->
    lookup_s "TypedDict" ns = Some NsTDBase ->
    List.length cs < fuel ->
    exists r, resolve ct ns fuel t' = Some r /\ corrb (TTypedDict req opt) r = true.

(* ---- token level, ALL types (structural induction): in any namespace that binds None, Ellipsis, the typing
   names, and the root-relative dotted path of every class of t to that class, the token-level rendering of t
   evaluates to evt t — t with its unions rebuilt by typing's Union (None last under Optional). *)
Theorem render_resolves_tok :
  forall ct ns, binds_base ns -> forall t, binds_cls_l ct ns (tcls t) -> ok t = true ->
                  ev ct ns (rast ct t) = Some (evt t).
Proof. exact resolves. Qed.
Print Assumptions render_resolves_tok.

(* the same for the repr route (what is printed below Type / Iterator / DefaultDict) *)
Theorem render_resolves_tok_repr :
  forall ct ns, binds_base ns -> forall t, binds_cls_l ct ns (tcls t) -> ok_r t = true ->
                  ev ct ns (rast_r ct t) = Some (evt_r t).
Proof. exact resolves_r. Qed.
Print Assumptions render_resolves_tok_repr.

(* without unions the evaluated type IS the rendered type *)
Theorem evt_identity_union_free : forall t, union_free t = true -> evt t = t.
Proof. exact evt_union_free. Qed.
Print Assumptions evt_identity_union_free.

(* ---- imports: every (module, name) the rendering of an annotation of a signature refers to — the root of each
   non-builtin class, the typing names of either route, Optional for a None default — is in
   get_imports_for_signature *)
Theorem imports_cover_names :
  forall ct ps ret,
    (forall n t d a b, In (n, Some t, d) ps -> In (a, b) (need ct t) -> imap_has a b (imps_sig ct ps ret))
    /\ (forall n t d, In (n, Some t, d) ps -> d = 1 -> is_optional t = false ->
                      imap_has "typing" "Optional" (imps_sig ct ps ret))
    /\ (forall t a b, ret = Some t -> In (a, b) (need ct t) -> imap_has a b (imps_sig ct ps ret)).
Proof. exact sig_covers. Qed.
Print Assumptions imports_cover_names.

(* ---- text level, under the checked premise strip_is_tokenwise: the stripped annotation text parses back to
   the token-level rendering (evaluated per case by vm_compute as `tokenwise`; the stringology lemma that would
   discharge it from "no module prefix overlaps a name" is not proved) *)
Theorem render_resolves_partial :
  forall ct ns mods t, binds_base ns -> binds_cls_l ct ns (tcls t) -> ok t = true ->
    parse_anno (strip_mods mods (ra ct t)) = Some (rast ct t) ->
    eval_text ct ns (strip_mods mods (ra ct t)) = Some (evt t).
Proof. exact resolves_text. Qed.
Print Assumptions render_resolves_partial.

(* ---- non-vacuity ---- *)
Definition ex_ct : ctable :=
  [(1%N, ("builtins", "NoneType")); (2%N, ("builtins", "int")); (3%N, ("builtins", "str"));
   (16%N, ("utils", "A")); (17%N, ("utils", "Outer")); (18%N, ("utils", "Outer.Inner"));
   (19%N, ("pkg.utils", "B")); (20%N, ("_io", "StringIO"))].
Definition ex_ns : namespace :=
  [("None", NsNone); ("Ellipsis", NsEllipsis)] ++ map (fun k => (k, NsTyp k)) typing_names
  ++ [("int", NsCls 2%N); ("str", NsCls 3%N); ("A", NsCls 16%N); ("Outer", NsCls 17%N); ("B", NsCls 19%N)].
Definition ex_ty : ty :=
  TTuple [TUnion [TCls 16%N; tnone; TCls 19%N]; TDefaultDict (TCls 3%N) (TTupleVar (TCls 18%N));
          TGenerator (TFwd "XTypedDict__RENAME_ME__") tnone (TList (TType (TCls 2%N))); TTuple []].

Example ex_render_resolves_tok :
  binds_base ex_ns /\ binds_cls_l ex_ct ex_ns (tcls ex_ty) /\ ok ex_ty = true
  /\ ev ex_ct ex_ns (rast ex_ct ex_ty)
     = Some (TTuple [TUnion [TCls 16%N; TCls 19%N; tnone]; TDefaultDict (TCls 3%N) (TTupleVar (TCls 18%N));
                     TGenerator (TFwd "XTypedDict__RENAME_ME__") tnone (TList (TType (TCls 2%N))); TTuple []])
  /\ corrb ex_ty (evt ex_ty) = true.
Proof.
  assert (Hb : binds_base ex_ns).
  { split; [reflexivity|]. split; [reflexivity|].
    intros k Hk. cbn in Hk. repeat (destruct Hk as [<-|Hk]; [reflexivity|]). destruct Hk. }
  assert (Hc : binds_cls_l ex_ct ex_ns (tcls ex_ty)).
  { intros c Hc Hn. cbn in Hc.
    repeat (destruct Hc as [<-|Hc]; [first [vm_compute; reflexivity | exfalso; apply Hn; reflexivity]|]).
    destruct Hc. }
  split; [exact Hb|]. split; [exact Hc|]. vm_compute. repeat split; reflexivity.
Qed.

Example ex_imports_cover_names :
  let ps : list param := [("a", Some (TCls 18%N), 1); ("b", Some (TDict (TCls 3%N) (TCls 19%N)), 0)] in
  need ex_ct (TCls 18%N) = [("utils", "Outer")]
  /\ imps_sig ex_ct ps (Some (TCls 20%N))
     = [("typing", ["Optional"; "Dict"]); ("utils", ["Outer"]); ("pkg.utils", ["B"]); ("_io", ["StringIO"])]
  /\ render_imports (imps_sig ex_ct ps (Some (TCls 20%N)))
     = "from io import StringIO" +++ nl +++ "from pkg.utils import B" +++ nl +++ "from typing import (" +++ nl
       +++ "    Dict," +++ nl +++ "    Optional," +++ nl +++ ")" +++ nl +++ "from utils import Outer".
Proof. vm_compute. repeat split; reflexivity. Qed.

(* the repaired stripping on the B-11 (a) shape: utils.A and pkg.utils.B in one signature, inside generics *)
Example ex_render_resolves_partial :
  let mods := ["utils"; "typing"; "pkg.utils"] in
  let t := TDict (TCls 16%N) (TUnion [TCls 19%N; tnone; TCls 18%N]) in
  strip_mods mods (ra ex_ct t) = "Dict[A, Optional[Union[B, Outer.Inner]]]"
  /\ strip_mods_old mods (ra ex_ct t) = "Dict[A, Optional[Union[pkg.B, Outer.Inner]]]"
  /\ parse_anno (strip_mods mods (ra ex_ct t)) = Some (rast ex_ct t)
  /\ tokenwise ex_ct mods t = true
  /\ eval_text ex_ct ex_ns (strip_mods mods (ra ex_ct t)) = Some (evt t)
  /\ eval_text ex_ct ex_ns (strip_mods_old mods (ra ex_ct t)) = None.
Proof. vm_compute. repeat split; reflexivity. Qed.

(* a TypedDict with required and optional fields and a nested TypedDict: classes, names, and resolution of the
   forward reference in the stub's own namespace (a test of td_stub_resolves_full, by evaluation) *)
Example ex_td_stub_resolves :
  let td := TTypedDict [("x", TCls 2%N); ("inner", TTypedDict [("p", TCls 3%N)] [])] [("z", tnone)] in
  let f := Build_fdef [] "f0" false [("a", 0)] [("a", TList td)] None None in
  let fs := [build_fstub ex_ct f] in
  let ns := stub_ns ex_ct "foo" fs in
  map cs_header (flat_map fs_cstubs fs)
    = ["InnerTypedDict__RENAME_ME__(TypedDict)"; "ATypedDict__RENAME_ME__(TypedDict)";
       "ATypedDict__RENAME_ME__NonTotal(ATypedDict__RENAME_ME__, total=False)"]
  /\ fs_annos ex_ct strip_mods (build_fstub ex_ct f) = [("a", "List['ATypedDict__RENAME_ME__NonTotal']")]
  /\ (match eval_anno ex_ct ns 5 "List['ATypedDict__RENAME_ME__NonTotal']" with
      | Some r => corrb (TList td) r | None => false end) = true
  /\ stub_ok ex_ct "foo" [f] = true.
Proof. vm_compute. repeat split; reflexivity. Qed.

(* C11_full's hypotheses are satisfiable and its conclusion holds on a module with overlapping module names,
   a nested class, an _io type and a None default *)
Example ex_c11_full_instance :
  let fds := [Build_fdef [] "f1" false [("a", 0); ("b", 1)]
                         [("a", TDict (TCls 16%N) (TCls 19%N)); ("b", TCls 18%N)] (Some (TCls 20%N)) None] in
  wf_input ex_ct fds = true /\ stub_ok ex_ct "foo" fds = true
  /\ render_module ex_ct "foo" fds
     = "from io import StringIO" +++ nl +++ "from pkg.utils import B" +++ nl +++ "from typing import (" +++ nl
       +++ "    Dict," +++ nl +++ "    Optional," +++ nl +++ ")" +++ nl +++ "from utils import (" +++ nl
       +++ "    A," +++ nl +++ "    Outer," +++ nl +++ ")" +++ nl +++ nl +++ nl
       +++ "def f1(a: Dict[A, B], b: Optional[Outer.Inner] = ...) -> StringIO: ...".
Proof. vm_compute. repeat split; reflexivity. Qed.

(* ================= text level (Proofs/RenderText*.v) ================= *)
(* ---- text level: the tokenizer and parser invert the printer (no module to strip) ---- *)
Theorem render_parse_back :
  forall ct t, ok t = true -> fwd_ok t = true -> ct_lexical_ok ct = true ->
    forallb (fun c => cls_in ct c && is_builtin ct c) (tcls t) = true ->
    parse_anno (ra ct t) = Some (rast ct t).
Proof. exact parse_back_checked. Qed.
Print Assumptions render_parse_back.

(* ---- stringology: stripping the text = printing from the class table with stripped class texts ---- *)
Theorem strip_is_tokenwise :
  forall ct mods t, mods_ok mods = true -> lexok (cls_both_ok ct mods) t = true ->
    strip_mods mods (ra ct t) = ra (strip_ct mods ct) t
    /\ parse_anno (strip_mods mods (ra ct t)) = Some (rast (strip_ct mods ct) t).
Proof. exact strip_tokenwise. Qed.
Print Assumptions strip_is_tokenwise.

(* ---- render_resolves_partial without its premise ---- *)
Theorem render_resolves_text :
  forall ct ns mods t, binds_base ns -> binds_cls_l ct ns (tcls t) -> ok t = true ->
    text_ok ct mods t = true ->
    eval_text ct ns (strip_mods mods (ra ct t)) = Some (evt t).
Proof. exact resolves_text_checked. Qed.
Print Assumptions render_resolves_text.

Theorem tokenwise_from_text_ok :
  forall ct mods t, ok t = true -> text_ok ct mods t = true -> tokenwise ct mods t = true.
Proof. exact tokenwise_true. Qed.
Print Assumptions tokenwise_from_text_ok.

(* syntactic sufficient condition for the strip_exact conjunct of text_ok *)
Theorem strip_exact_syntactic :
  forall ct mods c, cls_lex ct c = true -> strip_syn_ok ct mods c = true -> strip_exact ct mods c = true.
Proof. exact strip_syn_exact. Qed.
Print Assumptions strip_exact_syntactic.

(* the harness's well-formedness of class names gives the `dotted` conjunct of ct_lexical_ok *)
Theorem wf_class_names_dotted :
  forall w, forallb is_identifier (split_dot w) = true -> dotted w = true.
Proof. exact wf_names_dotted. Qed.
Print Assumptions wf_class_names_dotted.

(* ---- td_stub_resolves, flat TypedDicts ---- *)
Theorem td_stub_resolves_flat_partial :
  forall ct ns hint req opt fuel, binds_base ns ->
    wf_ty (TTypedDict req opt) -> Forall (fld_good ct ns) (req ++ opt) -> req ++ opt <> [] ->
    let '(t', cs) := rtd (TTypedDict req opt) hint in
    nodup_s (map cs_name cs) = true ->
    (forall s, In s cs -> lookup_s (cs_name s) ns = lookup_s (cs_name s) (cstubs_ns ct cs)) ->
    lookup_s "TypedDict" ns = Some NsTDBase ->
    List.length cs < fuel ->
    exists r, resolve ct ns fuel t' = Some r /\ corrb (TTypedDict req opt) r = true.
Proof. exact td_stub_resolves_flat_b. Qed.
Print Assumptions td_stub_resolves_flat_partial.
