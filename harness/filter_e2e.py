"""C17 end to end: generated programs run under the real `monkeytype run` / `monkeytype.trace(config)` into a scratch
SQLite store; which rows are present is compared (in Coq) with the filter and the __main__ rule.

A program = a script (its functions live in __main__), two modules a.py (imports b) and b.py with module-level
functions (some with a nested function) and methods of two classes K and L; several of them share a bare name within
one file and the custom filters decide differently for them (by co_qualname).  Calls form a DAG (callee id > caller id), so the order in which calls start
and complete is known statically; the script additionally dumps the co_filename of every generated function."""
import ast
import json
import os
import sqlite3
import subprocess

from harness import common


def tracer_skips_trace_types():
    """does CallTracer.__call__ in the tree under test still compare co_name with "trace_types"?"""
    src = open(os.path.join(common.REPO, "monkeytype", "tracing.py")).read()
    for node in ast.walk(ast.parse(src)):
        if isinstance(node, ast.ClassDef) and node.name == "CallTracer":
            for fn in node.body:
                if isinstance(fn, ast.FunctionDef) and fn.name == "__call__":
                    return any(isinstance(c, ast.Constant) and c.value == "trace_types" for c in ast.walk(fn))
    raise RuntimeError("CallTracer.__call__ not found in monkeytype/tracing.py")


class Fn:
    def __init__(self, fid, where, name, cls=None, nested_in=None):
        self.fid = fid
        self.where = where            # "main" | "a" | "b"
        self.name = name              # bare name (co_name); NOT unique within a file
        self.cls = cls                # None | "K" | "L"
        self.nested_in = nested_in    # fid of the enclosing function for a nested function
        self.calls = []
        self.dict_arg = False         # called from the top level only, with differently shaped dicts

    @property
    def is_method(self):
        return self.cls is not None

    def qualname_in(self, fns):
        if self.cls:
            return f"{self.cls}.{self.name}"
        if self.nested_in is not None:
            return f"{fns[self.nested_in].qualname_in(fns)}.<locals>.{self.name}"
        return self.name

    SHAPES = ["{'a': 1, 'b': 'x'}", "{'a': 1}", "{'a': 2, 'c': [1]}", "{'a': 1, 'b': 'y'}"]

    def ref_from(self, caller, k=0):
        """expression calling this function from the body of `caller` (a Fn, or None for the script's top level)"""
        if self.dict_arg:
            return f"{self.where}.{self.name}({self.SHAPES[k % len(self.SHAPES)]})"
        if self.nested_in is not None:
            return f"{self.name}(r)"                       # only ever called by its enclosing function
        where = "main" if caller is None else caller.where
        prefix = "" if where == self.where else self.where + "."
        if self.cls:
            return f"{prefix}{self.cls}().{self.name}(r)"
        return f"{prefix}{self.name}(r)"

    def code_expr(self, fns):
        """expression denoting a function object whose code lives in the same file (for the co_filename dump)"""
        if self.nested_in is not None:
            return fns[self.nested_in].code_expr(fns)
        prefix = "" if self.where == "main" else self.where + "."
        return f"{prefix}{self.cls + '.' if self.cls else ''}{self.name}"


def collision_groups(fns):
    """functions sharing a bare name within one file (>= 2 members)"""
    g = {}
    for f in fns:
        g.setdefault((f.where, f.name), []).append(f.fid)
    return [ids for ids in g.values() if len(ids) > 1]


def gen_program(rnd, idx, directed_trace_types=False, dict_shapes=False):
    """Functions of the script, then of a.py, then of b.py.  In a.py / b.py several functions share a bare name:
    methods `run` of two classes K and L, sometimes a module function `run` as well, and a nested function named like
    another module function of the same file."""
    while True:
        fns = []
        for j in range(rnd.randrange(1, 4)):
            fns.append(Fn(len(fns), "main", f"f{len(fns)}"))
        for where in ("a", "b"):
            have_nested = False
            if dict_shapes and where == "a":
                sh = Fn(len(fns), "a", f"shapes{len(fns)}")
                sh.dict_arg = True
                fns.append(sh)
            for j in range(rnd.randrange(2, 5)):
                outer = Fn(len(fns), where, f"f{len(fns)}")
                fns.append(outer)
                if not have_nested and rnd.random() < 0.5:
                    have_nested = True
                    fns.append(Fn(len(fns), where, f"n{len(fns)}", nested_in=outer.fid))
            for cls in ("K", "L"):
                for j in range(rnd.randrange(1, 3)):
                    fns.append(Fn(len(fns), where, f"m{len(fns)}", cls=cls))
        # ---- shared bare names ----
        for where in ("a", "b"):
            for cls in ("K", "L"):
                rnd.choice([f for f in fns if f.where == where and f.cls == cls]).name = "run"
            plain = [f for f in fns if f.where == where and f.cls is None and f.nested_in is None and not f.dict_arg]
            if rnd.random() < 0.5:
                rnd.choice(plain).name = "run"
        if directed_trace_types:
            cand = [f for f in fns if f.where == "a" and f.cls is None and f.nested_in is None and f.name != "run"] or \
                   [f for f in fns if f.where == "a" and f.cls is None and f.nested_in is None]
            cand[0].name = "trace_types"
        for n in fns:
            if n.nested_in is not None:
                others = [f for f in fns if f.where == n.where and f.cls is None and f.nested_in is None and f.fid != n.nested_in
                          and not f.dict_arg]
                n.name = rnd.choice(others).name
        # ---- call DAG ----
        order = {"main": 0, "a": 1, "b": 2}
        for f in fns:
            children = [g.fid for g in fns if g.nested_in == f.fid]
            # bare names that mean something else inside f's body: its nested functions; inside a nested function, itself
            shadowed = {fns[c].name for c in children} | ({f.name} if f.nested_in is not None else set())
            if f.nested_in is not None:
                shadowed |= {fns[c].name for c in range(len(fns)) if fns[c].nested_in == f.nested_in}
            later = [g for g in fns if g.fid > f.fid and order[g.where] >= order[f.where] and g.nested_in is None
                     and not g.dict_arg and not f.dict_arg and not (g.cls is None and g.where == f.where and g.name in shadowed)]
            k = rnd.choice([0, 0, 1, 1, 2])
            f.calls = children + [g.fid for g in rnd.sample(later, min(k, len(later)))]
        callable_top = [f.fid for f in fns if f.nested_in is None and not f.dict_arg]
        top = [rnd.choice(callable_top) for _ in range(rnd.randrange(2, 6))]
        for ids in collision_groups(fns):             # every function that shares its bare name is really called
            for i in ids:
                top.append(fns[i].nested_in if fns[i].nested_in is not None else i)
        if directed_trace_types:
            top.append([f.fid for f in fns if f.name == "trace_types" and f.nested_in is None][0])
        for f in fns:
            if f.dict_arg:                                  # one function, several differently shaped dicts in one session
                top += [f.fid] * rnd.randrange(2, 5)
        rnd.shuffle(top)
        prog = {"idx": idx, "fns": fns, "top": top}
        if len(history(prog)) <= 900:
            return prog


def history(prog):
    """(event, code id, frame id) in the order CPython delivers them for the generated code"""
    H = []
    counter = [0]
    fns = prog["fns"]

    def call(fid):
        counter[0] += 1
        fr = counter[0]
        H.append(("KCall", fid, fr))
        H.append(("KOther", fid, fr))        # the len() builtin call inside the body (c_call)
        for c in fns[fid].calls:
            call(c)
        H.append(("KReturn", fid, fr))
    for t in prog["top"]:
        call(t)
    return H


def body(f, fns, indent="    "):
    if f.dict_arg:
        return f"{indent}r = len(x)\n{indent}return r"
    lines = [f"{indent}r = x + len([x])"]
    for c in f.calls:
        g = fns[c]
        if g.nested_in == f.fid:
            lines.append(f"{indent}def {g.name}(x):\n{body(g, fns, indent + '    ')}")
    for c in f.calls:
        lines.append(f"{indent}r += {fns[c].ref_from(f)}")
    lines.append(f"{indent}return r" if f.fid % 3 else f"{indent}return 7")   # expression / constant returns
    return "\n".join(lines)


def module_src(where, fns, imports):
    out = list(imports)
    for f in fns:
        if f.where == where and f.cls is None and f.nested_in is None:
            out.append(f"def {f.name}(x):\n{body(f, fns)}\n")
    if where != "main":
        for cls in ("K", "L"):
            out.append(f"class {cls}:")
            for f in fns:
                if f.where == where and f.cls == cls:
                    out.append(f"    def {f.name}(self, x):\n{body(f, fns, '        ')}\n")
    return "\n".join(out) + "\n"


CFG = '''import os, re
from contextlib import contextmanager
from monkeytype.config import DefaultConfig
from monkeytype.db.base import CallTraceStore
from monkeytype.db.sqlite import SQLiteStore
ADMIT = %r
STYLE = %r
DEFERRED = %r
MAX_TD = %r
# what the filter answers for "yes" / "no": CallTracer goes by truthiness, so any of these pairs is a legitimate filter
ANSWERS = {"bool": (True, False), "int": (1, 0), "str": ("yes", ""), "none": (True, None),
           "match": (re.match("y", "y"), re.match("y", "n")), "list": ([0], [])}
YES, NO = ANSWERS[STYLE]
class DeferredStore(CallTraceStore):
    \"\"\"queues the batch object it is handed and writes it to SQLite only when asked at the end\"\"\"
    def __init__(self, path):
        self.path = path
        self.queue = []
    def add(self, traces):
        self.queue.append(traces)
    def filter(self, module, qualname_prefix=None, limit=2000):
        return []
    def write_all(self):
        inner = SQLiteStore.make_store(self.path)
        for batch in self.queue:
            inner.add(batch)
        self.queue = []
STORE = DeferredStore(%r) if DEFERRED else None
def finish():
    if STORE is not None:
        STORE.write_all()
class C(DefaultConfig):
    def trace_store(self):
        return STORE if DEFERRED else SQLiteStore.make_store(%r)
    def max_typed_dict_size(self):
        return MAX_TD
    def code_filter(self):
        return lambda code: YES if (os.path.basename(code.co_filename), code.co_qualname) in ADMIT else NO
    @contextmanager
    def cli_context(self, command):
        try:
            yield
        finally:
            finish()
CONFIG = C()
'''
ENDINGS = {None: ("", 0), "exit0": ("import sys; sys.exit(0)", 0), "exit3": ("import sys; sys.exit(3)", 3),
           "raise": ("raise RuntimeError('the traced program fails after its calls')", 1)}
STYLES = ["bool", "int", "str", "none", "match", "list"]


def history_of(prog, tops, counter):
    H = []
    fns = prog["fns"]

    def call(fid):
        counter[0] += 1
        fr = counter[0]
        H.append(("KCall", fid, fr))
        H.append(("KOther", fid, fr))
        for c in fns[fid].calls:
            call(c)
        H.append(("KReturn", fid, fr))
    for t in tops:
        call(t)
    return H


def run_program(rnd, workdir, prog, mode, env_names=None, ending=None, deferred=False):
    """mode: 'run-custom' (monkeytype run, custom filter), 'trace-custom' (with monkeytype.trace(CONFIG)),
    'run-default' (DefaultConfig, optional MONKEYTYPE_TRACE_MODULES).  `ending`: how the traced block is left after its
    calls (None: normally; 'exit0' / 'exit3': sys.exit; 'raise': an exception).  `deferred`: the config's store queues the
    batch objects and writes them when asked at the end.  Returns the case dict."""
    idx = prog["idx"]
    fns = prog["fns"]
    d = os.path.join(workdir, f"e2e_{idx}")
    os.makedirs(d)
    db = os.path.join(d, "traces.sqlite3")
    names_out = os.path.join(d, "filenames.json")
    script = f"main{idx}.py"
    with open(os.path.join(d, "b.py"), "w") as f:
        f.write(module_src("b", fns, []))
    with open(os.path.join(d, "a.py"), "w") as f:
        f.write(module_src("a", fns, ["import b"]))
    occurrence = [0]

    def call_lines(tops, indent):
        out = []
        for t in tops:
            if fns[t].dict_arg:
                out.append(f"{indent}r = 1; {fns[t].ref_from(None, occurrence[0])}")
                occurrence[0] += 1
            else:
                out.append(f"{indent}r = 1; {fns[t].ref_from(None)}")
        return "\n".join(out) or f"{indent}pass"
    calls = call_lines(prog["top"], "    " if mode == "trace-custom" else "")
    hist = history(prog)
    sessions = None
    if mode == "trace-custom" and len(prog["top"]) >= 3 and (idx // 2) % 3 != 2:
        # a nested session: monkeytype.trace() entered while another one is active.  The inner session has its own tracer and
        # logger and is flushed first; the outer one must go on recording after the inner one ended.  The top-level calls are
        # independent (no generated frame is live across a session boundary), so the store order is inner, before, after.
        top = prog["top"]
        i = rnd.randrange(1, len(top) - 1)
        j = rnd.randrange(i + 1, len(top))
        sessions = {"outer_before": top[:i], "inner": top[i:j], "outer_after": top[j:]}
        calls = (call_lines(top[:i], "    ") + f"\n    with monkeytype.trace(cfg{idx}.CONFIG):\n" + call_lines(top[i:j], "        ")
                 + "\n" + call_lines(top[j:], "    "))
        counter = [0]
        hist = history_of(prog, top[i:j], counter) + history_of(prog, top[:i], counter) + history_of(prog, top[j:], counter)
    dump = ("import json as _j\n_j.dump({" + ", ".join(f"'{f.fid}': {f.code_expr(fns)}.__code__.co_filename" for f in fns)
            + f"}}, open({names_out!r}, 'w'))\n")
    main_defs = module_src("main", fns, ["import a, b", "import json, textwrap"])
    stdlib_calls = "json.dumps({'k': [1, 2]}); textwrap.dedent('  x')\n"
    admitted = None
    style = None
    if mode in ("run-custom", "trace-custom"):
        adm = {f.fid for f in fns if rnd.random() < 0.55 or f.name == "trace_types" or f.dict_arg}
        for ids in collision_groups(fns):             # the filter decides differently for functions sharing a bare name
            ids = list(ids)
            rnd.shuffle(ids)
            for pos, i in enumerate(ids):
                if fns[i].name == "trace_types":
                    continue
                (adm.add if pos % 2 == 0 else adm.discard)(i)
        admitted = sorted(adm)
        base = {"main": script, "a": "a.py", "b": "b.py"}
        admit = {(base[fns[i].where], fns[i].qualname_in(fns)) for i in admitted}    # by co_qualname, not by bare name
        with open(os.path.join(d, f"cfg{idx}.py"), "w") as f:
            style = STYLES[idx % len(STYLES)]
            f.write(CFG % (admit, style, bool(deferred), 3 if any(f.dict_arg for f in fns) else 0, db, db))
    env = common.sub_env({"PYTHONPATH": common.REPO + os.pathsep + common.VERIF + os.pathsep + d, "MT_DB_PATH": db})
    end_stmt, want_rc = ENDINGS[ending]
    if mode == "trace-custom":
        ind = lambda text: "".join("        " + ln + "\n" for ln in text.splitlines())     # noqa: E731
        src = (main_defs + f"import monkeytype, cfg{idx}\ntry:\n    with monkeytype.trace(cfg{idx}.CONFIG):\n"
               + "".join("    " + ln + "\n" for ln in calls.splitlines()) + ind(stdlib_calls) + ind(dump) + ind(end_stmt or "pass")
               + f"finally:\n    cfg{idx}.finish()\n")
        cmd = [common.PY, script]
    else:
        src = main_defs + calls + "\n" + stdlib_calls + dump + end_stmt + "\n"
        cmd = [common.PY, "-m", "monkeytype"] + (["-c", f"cfg{idx}:CONFIG"] if mode == "run-custom" else []) + ["run", script]
    with open(os.path.join(d, script), "w") as f:
        f.write(src)
    if mode == "run-default" and env_names is not None:
        env["MONKEYTYPE_TRACE_MODULES"] = env_names
    p = subprocess.run(cmd, cwd=d, env=env, capture_output=True, text=True, timeout=120)
    err = None
    rows = []
    filenames = {}
    if p.returncode != want_rc or not os.path.exists(names_out):
        err = f"program exited {p.returncode}: {p.stderr[-600:]}"
    else:
        filenames = json.load(open(names_out))
        if os.path.exists(db):
            con = sqlite3.connect(db)
            try:
                rows = [list(r) for r in con.execute("SELECT module, qualname FROM monkeytype_call_traces ORDER BY rowid")]
            finally:
                con.close()
    return {"idx": idx, "mode": mode, "env": env_names, "dir": d, "cmd": " ".join(cmd), "error": err,
            "funcs": [{"id": f.fid, "module": "__main__" if f.where == "main" else f.where, "qualname": f.qualname_in(fns),
                       "co_name": f.name, "co_filename": filenames.get(str(f.fid)), "calls": f.calls} for f in fns],
            "top": prog["top"], "sessions": sessions, "filter_answers": style, "ending": ending, "deferred_store": bool(deferred), "admitted": admitted, "history": hist, "rows": rows,
            "sources": {n: open(os.path.join(d, n)).read() for n in sorted(os.listdir(d)) if n.endswith(".py")}}


DOUBLE = '''import sys
def work(x):
    return x + len([x])
class K:
    def run(self, x):
        return x + len([x])
if __name__ == "__main__":
    import %(mod)s as me                 # this very file once more, under its own name
%(calls)s
    import json as _j
    _j.dump({"0": work.__code__.co_filename, "1": me.work.__code__.co_filename,
             "2": K.run.__code__.co_filename, "3": me.K.run.__code__.co_filename}, open(%(out)r, "w"))
'''


def run_double_load(workdir, idx, order, mode, absolute=True):
    """One source file loaded twice in the traced run: as __main__ (the script given to `monkeytype run`) and imported
    under its own name from inside itself; the same functions are called in both copies, in the given order.  Only the calls
    of the imported copy may be stored, under the module's name."""
    d = os.path.join(workdir, f"e2e_{idx}")
    os.makedirs(d)
    mod = f"dl{idx}"
    script = os.path.join(d, mod + ".py")
    db = os.path.join(d, "traces.sqlite3")
    names_out = os.path.join(d, "filenames.json")
    exprs = {0: "work(1)", 1: "me.work(2)", 2: "K().run(1)", 3: "me.K().run(2)"}
    seq = {"main-first": [0, 2, 1, 3], "module-first": [1, 3, 0, 2], "interleaved": [1, 0, 2, 3, 0, 1]}[order]
    with open(script, "w") as f:
        f.write(DOUBLE % {"mod": mod, "calls": "\n".join("    " + exprs[i] for i in seq), "out": names_out})
    funcs = [("__main__", "work"), (mod, "work"), ("__main__", "K.run"), (mod, "K.run")]
    admitted = None
    if mode == "run-custom":
        admitted = [0, 1, 2, 3]
        with open(os.path.join(d, f"cfg{idx}.py"), "w") as f:
            f.write(CFG % ({(mod + ".py", "work"), (mod + ".py", "K.run")}, "bool", False, 0, db, db))
    env = common.sub_env({"PYTHONPATH": common.REPO + os.pathsep + common.VERIF + os.pathsep + d, "MT_DB_PATH": db})
    cmd = [common.PY, "-m", "monkeytype"] + (["-c", f"cfg{idx}:CONFIG"] if mode == "run-custom" else []) + \
          ["run", script if absolute else mod + ".py"]
    p = subprocess.run(cmd, cwd=d, env=env, capture_output=True, text=True, timeout=120)
    err, rows, filenames = None, [], {}
    if p.returncode != 0 or not os.path.exists(names_out):
        err = f"program exited {p.returncode}: {p.stderr[-600:]}"
    else:
        filenames = json.load(open(names_out))
        if os.path.exists(db):
            con = sqlite3.connect(db)
            try:
                rows = [list(r) for r in con.execute("SELECT module, qualname FROM monkeytype_call_traces ORDER BY rowid")]
            finally:
                con.close()
    hist = []
    for fr, i in enumerate(seq, 1):
        hist += [("KCall", i, fr), ("KOther", i, fr), ("KReturn", i, fr)]
    return {"idx": idx, "mode": mode, "env": None, "dir": d, "cmd": " ".join(cmd), "error": err,
            "funcs": [{"id": i, "module": m, "qualname": q, "co_name": q.split(".")[-1], "co_filename": filenames.get(str(i)),
                       "calls": []} for i, (m, q) in enumerate(funcs)],
            "top": seq, "sessions": None, "filter_answers": "bool" if admitted else None, "ending": None, "deferred_store": False,
            "double_load": order, "admitted": admitted, "history": hist, "rows": rows,
            "sources": {n: open(os.path.join(d, n)).read() for n in sorted(os.listdir(d)) if n.endswith(".py")}}


def _rows(db):
    if not os.path.exists(db):
        return []
    con = sqlite3.connect(db)
    try:
        return [list(r) for r in con.execute("SELECT module, qualname FROM monkeytype_call_traces ORDER BY rowid")]
    except sqlite3.OperationalError:
        return []
    finally:
        con.close()


LATE_CFG = '''import os
from monkeytype.config import DefaultConfig
from monkeytype.db.sqlite import SQLiteStore
ADMIT = %r
class C(DefaultConfig):
    def trace_store(self):
        return SQLiteStore.make_store(%r)
    def code_filter(self):
        return lambda code: (os.path.basename(code.co_filename), code.co_qualname) in ADMIT
CONFIG = C()
'''


def run_two_sessions(rnd, workdir, prog, kind):
    """Two tracing sessions in ONE process, each with its own database; returns two cases (one per session / database).
    kind 'config-appears': both sessions are `with monkeytype.trace():` (no argument); monkeytype_config is not importable
      during the first (DefaultConfig: default filter, MT_DB_PATH) and becomes importable before the second (its CONFIG has a
      custom filter and its own database).
    kind 'db-path-changes': one long-lived DefaultConfig object is used for both sessions and MT_DB_PATH is changed in
      between; each session's calls belong in the database named at the time."""
    idx = prog["idx"]
    fns = prog["fns"]
    d = os.path.join(workdir, f"e2e_{idx}")
    os.makedirs(d)
    db1, db2 = os.path.join(d, "first.sqlite3"), os.path.join(d, "second.sqlite3")
    names_out = os.path.join(d, "filenames.json")
    script = f"main{idx}.py"
    with open(os.path.join(d, "b.py"), "w") as f:
        f.write(module_src("b", fns, []))
    with open(os.path.join(d, "a.py"), "w") as f:
        f.write(module_src("a", fns, ["import b"]))
    top = prog["top"]
    cut = max(1, len(top) // 2)
    occurrence = [0]

    def call_lines(tops, indent):
        out = []
        for t in tops:
            out.append(f"{indent}r = 1; {fns[t].ref_from(None, occurrence[0])}")
            occurrence[0] += 1 if fns[t].dict_arg else 0
        return "\n".join(out) or f"{indent}pass"
    admitted = None
    late = os.path.join(d, "late")
    if kind == "config-appears":
        adm = {f.fid for f in fns if rnd.random() < 0.5}
        for ids in collision_groups(fns):
            for pos, i in enumerate(ids):
                (adm.add if pos % 2 == 0 else adm.discard)(i)
        admitted = sorted(adm)
        base = {"main": script, "a": "a.py", "b": "b.py"}
        os.makedirs(late)
        with open(os.path.join(late, "monkeytype_config.py"), "w") as f:
            f.write(LATE_CFG % ({(base[fns[i].where], fns[i].qualname_in(fns)) for i in admitted}, db2))
        first = "with monkeytype.trace():"
        between = f"sys.path.insert(0, {late!r})"
        second = "with monkeytype.trace():"
    else:
        first = second = "with monkeytype.trace(CONFIG):"
        between = f"os.environ['MT_DB_PATH'] = {db2!r}"
    dump = ("import json as _j\n_j.dump({" + ", ".join(f"'{f.fid}': {f.code_expr(fns)}.__code__.co_filename" for f in fns)
            + f"}}, open({names_out!r}, 'w'))\n")
    src = (module_src("main", fns, ["import a, b", "import os, sys, monkeytype", "from monkeytype.config import DefaultConfig"])
           + "CONFIG = DefaultConfig()\n" + first + "\n" + call_lines(top[:cut], "    ") + "\n" + between + "\n"
           + second + "\n" + call_lines(top[cut:], "    ") + "\n" + dump)
    with open(os.path.join(d, script), "w") as f:
        f.write(src)
    env = common.sub_env({"PYTHONPATH": common.REPO + os.pathsep + common.VERIF + os.pathsep + d, "MT_DB_PATH": db1})
    cmd = [common.PY, script]
    p = subprocess.run(cmd, cwd=d, env=env, capture_output=True, text=True, timeout=120)
    err, filenames = None, {}
    if p.returncode != 0 or not os.path.exists(names_out):
        err = f"program exited {p.returncode}: {p.stderr[-600:]}"
    else:
        filenames = json.load(open(names_out))
    counter = [0]
    h1 = history_of(prog, top[:cut], counter)
    h2 = history_of(prog, top[cut:], counter)
    sources = {}
    for root, _, names in os.walk(d):
        for n in sorted(names):
            if n.endswith(".py"):
                sources[os.path.relpath(os.path.join(root, n), d)] = open(os.path.join(root, n)).read()
    funcs = [{"id": f.fid, "module": "__main__" if f.where == "main" else f.where, "qualname": f.qualname_in(fns),
              "co_name": f.name, "co_filename": filenames.get(str(f.fid)), "calls": f.calls} for f in fns]
    common_part = {"idx": idx, "env": None, "dir": d, "cmd": " ".join(cmd), "error": err, "funcs": funcs, "top": top, "sessions": None,
                   "filter_answers": None, "ending": None, "deferred_store": False, "sources": sources}
    what1 = {"config-appears": "first session: monkeytype.trace() while monkeytype_config is not importable (DefaultConfig, MT_DB_PATH)",
             "db-path-changes": "first session of one DefaultConfig object, database = MT_DB_PATH at that time"}[kind]
    what2 = {"config-appears": "second session: monkeytype.trace() after monkeytype_config became importable (its CONFIG: custom filter, own database)",
             "db-path-changes": "second session of the same DefaultConfig object after MT_DB_PATH was changed: its own database"}[kind]
    c1 = dict(common_part, mode="run-default", admitted=None, history=h1, rows=_rows(db1), two_sessions=kind, session=what1)
    c2 = dict(common_part, mode="run-default" if kind == "db-path-changes" else "trace-custom", admitted=admitted, history=h2,
              rows=_rows(db2), two_sessions=kind, session=what2)
    return [c1, c2]
