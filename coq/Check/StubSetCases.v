(* Check/StubSetCases.v — C14 verdicts: one case compares the stub obtained from one presentation of a trace set
   (a permutation / duplication / batching of the rows, another interpreter process) with the reference stub. *)
From MT Require Export StubSet Infer Rewrite Common.
From MT Require Import Constants.
Open Scope string_scope.

(* summary of a stub as the harness parses it: every annotation evaluated in the stub's own namespace *)
Record fsum := FSum {
  f_qualname : string;
  f_async : bool;
  f_decorators : list string;
  f_params : list string;                         (* all parameter names, in order *)
  f_annos : list (string * option ty);            (* annotated parameters: None = the text does not evaluate *)
  f_ret : option (option ty)                      (* None = no return annotation *)
}.
Record stubsum := StubSum {
  s_imports : list string;
  s_classes : list (string * (string * bool) * list (string * option ty));   (* generated TypedDict classes *)
  s_funcs : list fsum
}.

(* what the merged annotation of one position should be, from the distinct traced types of that position *)
Record posin := PosIn { p_qualname : string; p_param : string; p_default_none : bool; p_types : list ty }.

Record scase := SCase {
  c_k : nat;
  c_rewrite : bool;                               (* default rewriter on (false: --disable-type-rewriting) *)
  c_ref : stubsum;
  c_other : stubsum;
  c_positions : list posin;
  c_ambiguous : bool;                             (* some union of > max classes has two incomparable common bases *)
  c_h : hierarchy; c_bt : bases_table
}.

Fixpoint list_eqb {A} (eq : A -> A -> bool) (a b : list A) : bool :=
  match a, b with [], [] => true | x :: a', y :: b' => eq x y && list_eqb eq a' b' | _, _ => false end.
Definition oty_equivb (a b : option ty) : bool := opt_equivb a b.
Definition anno_eqb (a b : string * option ty) : bool := String.eqb (fst a) (fst b) && oty_equivb (snd a) (snd b).
Definition ret_eqb (a b : option (option ty)) : bool :=
  match a, b with Some x, Some y => oty_equivb x y | None, None => true | _, _ => false end.
Definition fsum_eqb (a b : fsum) : bool :=
  String.eqb (f_qualname a) (f_qualname b) && Bool.eqb (f_async a) (f_async b)
  && list_eqb String.eqb (f_decorators a) (f_decorators b) && list_eqb String.eqb (f_params a) (f_params b)
  && list_eqb anno_eqb (f_annos a) (f_annos b) && ret_eqb (f_ret a) (f_ret b).
Definition class_eqb (a b : string * (string * bool) * list (string * option ty)) : bool :=
  let '(n, (bs, tot), fs) := a in let '(n', (bs', tot'), fs') := b in
  String.eqb n n' && String.eqb bs bs' && Bool.eqb tot tot' && list_eqb anno_eqb fs fs'.

(* same stub up to the order of union members (and TypedDict field order): same functions in the same order, same
   decorators, same parameter lists, pairwise equivalent annotations; same import lines; same generated classes *)
Definition stub_equivb (a b : stubsum) : bool :=
  list_eqb String.eqb (s_imports a) (s_imports b)
  && list_eqb class_eqb (s_classes a) (s_classes b)
  && list_eqb fsum_eqb (s_funcs a) (s_funcs b).

(* every annotation of the stub evaluates *)
Definition resolves (s : stubsum) : bool :=
  forallb (fun f => forallb (fun a => match snd a with Some _ => true | None => false end) (f_annos f)
                    && match f_ret f with Some None => false | _ => true end) (s_funcs s).

(* model of one position: shrink_top of the distinct traced types, then the default chain *)
(* render_parameter shows a parameter whose default is None as Optional[...] of its annotation *)
Definition shown (default_none : bool) (t : ty) : ty := if default_none then union_mk [t; TCls cNone] else t.
Definition model_pos (c : scase) (p : posin) : option ty :=
  match shrink_top (c_k c) (p_types p) with
  | Some t => if c_rewrite c then
                match default_chain with
                | Some rs => Some (shown (p_default_none p) (rw_chain (c_h c) (c_bt c) rs t))
                | None => None end
              else Some (shown (p_default_none p) t)
  | None => None
  end.
Definition find_anno (s : stubsum) (q p : string) : option (option ty) :=
  match find (fun f => String.eqb (f_qualname f) q) (s_funcs s) with
  | Some f => match find (fun a => String.eqb (fst a) p) (f_annos f) with Some a => Some (snd a) | None => None end
  | None => None
  end.
Definition model_ok (c : scase) : bool :=
  forallb (fun p => match model_pos c p, find_anno (c_ref c) (p_qualname p) (p_param p) with
                    | Some t, Some (Some a) => equivb t a
                    | _, _ => false end) (c_positions c).

(* two generated classes of one stub share a name (C11's kf_hint_collision): both are emitted, in row order, and the
   later one shadows the earlier; the stubs of two presentations then still hold the same classes as a multiset *)
Fixpoint remove_first {A} (e : A -> A -> bool) (x : A) (l : list A) : option (list A) :=
  match l with
  | [] => None
  | y :: r => if e x y then Some r else option_map (cons y) (remove_first e x r)
  end.
Fixpoint multiset_eqb {A} (e : A -> A -> bool) (a b : list A) : bool :=
  match a with
  | [] => match b with [] => true | _ => false end
  | x :: r => match remove_first e x b with Some b' => multiset_eqb e r b' | None => false end
  end.
Fixpoint names_distinct (l : list string) : bool :=
  match l with [] => true | x :: r => negb (existsb (String.eqb x) r) && names_distinct r end.
Definition class_name (c : string * (string * bool) * list (string * option ty)) : string := fst (fst c).
Definition class_collision (s : stubsum) : bool := negb (names_distinct (map class_name (s_classes s))).
Definition same_classes_as_multiset (a b : stubsum) : bool :=
  list_eqb String.eqb (s_imports a) (s_imports b) && multiset_eqb class_eqb (s_classes a) (s_classes b)
  && list_eqb String.eqb (map f_qualname (s_funcs a)) (map f_qualname (s_funcs b)).

(* 0 ok | 1 model <> reference stub at some position | 2 the two stubs differ | 5 differ inside the known
   finding class kf_rlu_ambiguous_ancestor | 6 differ only in the order of same-named generated classes (and in what
   the shadowed name then denotes): finding class kf_hint_collision *)
Definition verdict_c14 (c : scase) : nat :=
  if negb (stub_equivb (c_ref c) (c_other c)) then
    (if class_collision (c_ref c) && same_classes_as_multiset (c_ref c) (c_other c) then 6
     else if c_ambiguous c && c_rewrite c then 5 else 2)
  else if c_ambiguous c then 0         (* the model follows one particular member order; not compared there *)
  else if class_collision (c_ref c) then 0   (* a shadowed class name: what the annotation denotes is the recorded finding *)
  else if negb (model_ok c) then 1 else 0.
