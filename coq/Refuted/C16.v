(* C16 — what stays false of the model even with the proposed patches: the two finding classes.
   Witnesses are the reified real runs of harness/props/C16.py DIRECTED[7] and DIRECTED[8]. *)
From Coq Require Import List Bool String.
From MT Require Import Confine.
Import ListNotations.
Open Scope list_scope.

(* kf_shadow: source `from shapes import Circle` at the top and `from other import Circle` inside a function
   (libcst's symbol mapping keeps only the latter); the stub imports `from shapes import Circle`.
   The source's own top-level import is moved under TYPE_CHECKING: clause 4 and runtime_names_preserved fail. *)
Theorem source_import_moved_refuted :
  exists stub src applied out,
    wf_module src = true /\ embedsb src applied = true /\ confine stub src applied = Some out
    /\ kf_shadow stub src = true
    /\ embedsb src out = false
    /\ existsb (String.eqb "Circle") (runtime_bound src) = true
    /\ existsb (String.eqb "Circle") (runtime_bound out) = false.
Proof.
  exists [SImp (IFrom "shapes" [("Circle"%string, None)]); SComp "s" []].
  exists [SImp (IFrom "shapes" [("Circle"%string, None)]); SComp "f" [];
          SComp "h" [(CLocal, IFrom "other" [("Circle"%string, None)])]].
  exists [SImp (IFrom "__future__" [("annotations"%string, None)]); SImp (IFrom "shapes" [("Circle"%string, None)]);
          SImp (IImport [("shapes"%string, None)]); SComp "f" [];
          SComp "h" [(CLocal, IFrom "other" [("Circle"%string, None)])]].
  eexists. vm_compute. repeat split; reflexivity.
Qed.
Print Assumptions source_import_moved_refuted.

(* kf_apply_extra: the source imports `from shapes import Circle` only under `if typing.TYPE_CHECKING:`; the stub
   imports the same item, so it is not "newly imported"; libcst's apply step adds it at module level and it stays
   there: a new run-time import that only annotations need (clause 3 fails). *)
Theorem new_runtime_import_refuted :
  exists stub src applied out,
    wf_module src = true /\ embedsb src applied = true /\ confine stub src applied = Some out
    /\ kf_apply_extra stub src applied = true
    /\ existsb (fun it => negb (allowed_runtime src it)) (run_items out) = true.
Proof.
  exists [SImp (IFrom "shapes" [("Circle"%string, None)]); SComp "s" []].
  exists [SImp (IImport [("typing"%string, None)]); SIfTC [IFrom "shapes" [("Circle"%string, None)]]; SComp "f" []].
  exists [SImp (IFrom "__future__" [("annotations"%string, None)]); SImp (IImport [("typing"%string, None)]);
          SImp (IFrom "shapes" [("Circle"%string, None)]); SIfTC [IFrom "shapes" [("Circle"%string, None)]]; SComp "f" []].
  eexists. vm_compute. repeat split; reflexivity.
Qed.
Print Assumptions new_runtime_import_refuted.
