"""Fail-closed `ast` extractor for the stub layout (C12): reads the literals of monkeytype/stubs.py the Coq model
Model/StubRender.v copies by hand and writes coq/Gen/StubRenderConstants.v; Props/C12.v proves (Example
ex_source_literals) that the model's copies equal what the source says now.

What is read:
  * FunctionStub.render: the `render_signature(self.signature, <N> - len(s), prefix)` limit N; the "async " / "def "
    pieces; the if/elif chain `self.kind == FunctionKind.X` -> `s = prefix + "@<decorator>\\n" + s`;
  * render_signature: the extra indentation of a wrapped parameter line (`line = "<indent>" + f_param`) and the
    single-line separator (`", ".join(formatted_params)`);
  * ClassStub.render: the prefix handed to function stubs; ModuleStub.render: the separator joining the parts.
"""
import ast
import os

from harness import common


class ExtractError(Exception):
    pass


def _cs(s):
    return '"' + s.replace('"', '""') + '"'


def _class(tree, name):
    for node in tree.body:
        if isinstance(node, ast.ClassDef) and node.name == name:
            return node
    raise ExtractError(f"class {name} not found")


def _method(cls, name):
    for node in cls.body:
        if isinstance(node, ast.FunctionDef) and node.name == name:
            return node
    raise ExtractError(f"method {cls.name}.{name} not found")


def _func(tree, name):
    for node in tree.body:
        if isinstance(node, ast.FunctionDef) and node.name == name:
            return node
    raise ExtractError(f"function {name} not found")


def _const_str(node):
    if isinstance(node, ast.Constant) and isinstance(node.value, str):
        return node.value
    raise ExtractError(f"string literal expected at line {getattr(node, 'lineno', '?')}")


def function_stub_render(tree):
    fn = _method(_class(tree, "FunctionStub"), "render")
    limit = None
    for node in ast.walk(fn):
        if isinstance(node, ast.Call) and isinstance(node.func, ast.Name) and node.func.id == "render_signature":
            if len(node.args) != 3:
                raise ExtractError("render_signature call in FunctionStub.render: 3 arguments expected")
            a = node.args[1]
            if not (isinstance(a, ast.BinOp) and isinstance(a.op, ast.Sub) and isinstance(a.left, ast.Constant)
                    and isinstance(a.left.value, int) and isinstance(a.right, ast.Call)
                    and isinstance(a.right.func, ast.Name) and a.right.func.id == "len"):
                raise ExtractError("render_signature limit is not `<int> - len(s)`")
            if limit is not None:
                raise ExtractError("two render_signature calls in FunctionStub.render")
            limit = a.left.value
    if limit is None:
        raise ExtractError("no render_signature call in FunctionStub.render")
    pieces = [n.value.value for n in ast.walk(fn)
              if isinstance(n, ast.AugAssign) and isinstance(n.op, ast.Add) and isinstance(n.value, ast.Constant)
              and isinstance(n.value.value, str)]
    if pieces != ["async "]:
        raise ExtractError(f"`s += <literal>` pieces of FunctionStub.render are {pieces}, expected ['async ']")
    defs = [n.value.left.value for n in ast.walk(fn)
            if isinstance(n, ast.AugAssign) and isinstance(n.value, ast.BinOp) and isinstance(n.value.left, ast.Constant)
            and isinstance(n.value.left.value, str)]
    if defs != ["def "]:
        raise ExtractError(f"`s += <literal> + self.name` of FunctionStub.render gives {defs}, expected ['def ']")
    # the decorator chain
    decorators = {}
    chain = [n for n in fn.body if isinstance(n, ast.If)]
    chain = [n for n in chain if isinstance(n.test, ast.Compare)]
    if len(chain) != 1:
        raise ExtractError("expected one if/elif chain on self.kind in FunctionStub.render")
    node = chain[0]
    while True:
        t = node.test
        if not (isinstance(t, ast.Compare) and len(t.ops) == 1 and isinstance(t.ops[0], ast.Eq)
                and isinstance(t.left, ast.Attribute) and t.left.attr == "kind"
                and isinstance(t.comparators[0], ast.Attribute) and isinstance(t.comparators[0].value, ast.Name)
                and t.comparators[0].value.id == "FunctionKind"):
            raise ExtractError(f"decorator chain test not understood at line {node.lineno}")
        kind = t.comparators[0].attr
        if len(node.body) != 1 or not isinstance(node.body[0], ast.Assign):
            raise ExtractError(f"decorator chain body not understood at line {node.lineno}")
        v = node.body[0].value     # prefix + "@x\n" + s
        if not (isinstance(v, ast.BinOp) and isinstance(v.left, ast.BinOp) and isinstance(v.left.left, ast.Name)
                and v.left.left.id == "prefix" and isinstance(v.right, ast.Name) and v.right.id == "s"):
            raise ExtractError(f"decorator assignment not `prefix + <literal> + s` at line {node.lineno}")
        lit = _const_str(v.left.right)
        if not (lit.startswith("@") and lit.endswith("\n") and lit.count("\n") == 1):
            raise ExtractError(f"decorator literal {lit!r} not of the form '@name\\n'")
        if kind in decorators:
            raise ExtractError(f"kind {kind} twice in the decorator chain")
        decorators[kind] = lit[1:-1]
        if len(node.orelse) == 1 and isinstance(node.orelse[0], ast.If):
            node = node.orelse[0]
        elif not node.orelse:
            break
        else:
            raise ExtractError("decorator chain has an else branch")
    return limit, decorators


def strip_pattern(tree):
    """`pattern = r"<literal with one %s>" % "|".join(re.escape(m) for m in modules)` followed by
    `s = re.sub(pattern, "", s)`, modules = sorted(set(self.strip_modules), key=len, reverse=True)"""
    fn = _method(_class(tree, "FunctionStub"), "render")
    lits = [n.value.left.value for n in ast.walk(fn)
            if isinstance(n, ast.Assign) and len(n.targets) == 1 and isinstance(n.targets[0], ast.Name)
            and n.targets[0].id == "pattern" and isinstance(n.value, ast.BinOp) and isinstance(n.value.op, ast.Mod)
            and isinstance(n.value.left, ast.Constant) and isinstance(n.value.left.value, str)]
    if len(lits) != 1 or lits[0].count("%s") != 1:
        raise ExtractError("`pattern = <literal> % ...` not found exactly once in FunctionStub.render")
    subs = [n for n in ast.walk(fn)
            if isinstance(n, ast.Call) and isinstance(n.func, ast.Attribute) and n.func.attr == "sub"
            and isinstance(n.func.value, ast.Name) and n.func.value.id == "re"]
    if len(subs) != 1 or len(subs[0].args) != 3 or not (isinstance(subs[0].args[0], ast.Name) and subs[0].args[0].id == "pattern") \
            or not (isinstance(subs[0].args[1], ast.Constant) and subs[0].args[1].value == ""):
        raise ExtractError("`re.sub(pattern, \"\", s)` not found exactly once in FunctionStub.render")
    order = [n for n in ast.walk(fn)
             if isinstance(n, ast.Call) and isinstance(n.func, ast.Name) and n.func.id == "sorted"
             and {k.arg: ast.unparse(k.value) for k in n.keywords} == {"key": "len", "reverse": "True"}]
    if len(order) != 1:
        raise ExtractError("`sorted(..., key=len, reverse=True)` of the modules not found in FunctionStub.render")
    return lits[0]


def kinds(tree):
    cls = _class(tree, "FunctionKind")
    out = []
    for node in cls.body:
        if isinstance(node, ast.Assign) and len(node.targets) == 1 and isinstance(node.targets[0], ast.Name):
            out.append(node.targets[0].id)
    if not out:
        raise ExtractError("FunctionKind has no members")
    return out


def signature_literals(tree):
    fn = _func(tree, "render_signature")
    indents = [n.value.left.value for n in ast.walk(fn)
               if isinstance(n, ast.Assign) and isinstance(n.targets[0], ast.Name) and n.targets[0].id == "line"
               and isinstance(n.value, ast.BinOp) and isinstance(n.value.left, ast.Constant)]
    if len(indents) != 1 or not isinstance(indents[0], str):
        raise ExtractError("`line = <literal> + f_param` not found exactly once in render_signature")
    seps = [n.func.value.value for n in ast.walk(fn)
            if isinstance(n, ast.Call) and isinstance(n.func, ast.Attribute) and n.func.attr == "join"
            and isinstance(n.func.value, ast.Constant) and n.args and isinstance(n.args[0], ast.Name)
            and n.args[0].id == "formatted_params"]
    if len(seps) != 1:
        raise ExtractError("`<literal>.join(formatted_params)` not found exactly once in render_signature")
    return indents[0], seps[0]


def class_prefix(tree):
    fn = _method(_class(tree, "ClassStub"), "render")
    vals = set()
    for n in ast.walk(fn):
        if isinstance(n, ast.Call) and isinstance(n.func, ast.Attribute) and n.func.attr == "render":
            for kw in n.keywords:
                if kw.arg == "prefix":
                    vals.add(_const_str(kw.value))
    if len(vals) != 1:
        raise ExtractError(f"ClassStub.render passes prefixes {sorted(vals)}; exactly one expected")
    return vals.pop()


def module_separator(tree):
    fn = _method(_class(tree, "ModuleStub"), "render")
    seps = [n.func.value.value for n in ast.walk(fn)
            if isinstance(n, ast.Call) and isinstance(n.func, ast.Attribute) and n.func.attr == "join"
            and isinstance(n.func.value, ast.Constant) and n.args and isinstance(n.args[0], ast.Name)
            and n.args[0].id == "parts"]
    if len(seps) != 1 or set(seps[0]) != {"\n"}:
        raise ExtractError("`<newlines>.join(parts)` not found exactly once in ModuleStub.render")
    return len(seps[0])


def render() -> str:
    p = os.path.join(common.REPO, "monkeytype", "stubs.py")
    tree = ast.parse(open(p).read(), filename=p)
    limit, decorators = function_stub_render(tree)
    ks = kinds(tree)
    unknown = [k for k in decorators if k not in ks]
    if unknown:
        raise ExtractError(f"decorator chain mentions unknown kinds {unknown}")
    indent, sep = signature_literals(tree)
    rows = "; ".join(f"({_cs(k)}, [{_cs(decorators[k])}])" if k in decorators else f"({_cs(k)}, [])" for k in ks)
    return "\n".join([
        "(* GENERATED by harness/extract_stubrender.py from /repo's current source. Do not edit. *)",
        "From Coq Require Import List String ZArith.",
        "Import ListNotations.",
        "Open Scope string_scope.",
        "",
        f"Definition stub_max_line_len : Z := {limit}%Z.",
        f"Definition stub_decorators : list (string * list string) := [{rows}].",
        f"Definition stub_wrapped_param_indent : string := {_cs(indent)}.",
        f"Definition stub_single_line_separator : string := {_cs(sep)}.",
        f"Definition stub_class_body_prefix : string := {_cs(class_prefix(tree))}.",
        f"Definition stub_part_separator_newlines : nat := {module_separator(tree)}.",
        f"Definition stub_strip_pattern : string := {_cs(strip_pattern(tree))}.",
        "",
    ])


def regenerate():
    """Returns (ok, message).  Writes only when the content changed, so make stays incremental."""
    path = os.path.join(common.COQ, "Gen", "StubRenderConstants.v")
    try:
        text = render()
    except (ExtractError, SyntaxError, OSError, AttributeError, KeyError, IndexError, TypeError) as e:
        # keep the previously generated file: the proof status is reported as broken by the caller, but the
        # correspondence harness can still be built (against the last understood model) to search for a failing input
        return False, f"{type(e).__name__}: {e}"
    old = open(path).read() if os.path.exists(path) else None
    if old != text:
        os.makedirs(os.path.dirname(path), exist_ok=True)
        with open(path, "w") as f:
            f.write(text)
    return True, "ok"


if __name__ == "__main__":
    print(regenerate())
    print(open(os.path.join(common.COQ, "Gen", "StubRenderConstants.v")).read())
